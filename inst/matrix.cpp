// forces clang to instantiate the function templates; bodies come from /repo's headers
#include "romea_core_common/math/Matrix.hpp"
namespace romea { namespace core {
template Eigen::Matrix<double, 3, 3> toSe2Covariance<double>(const Eigen::Matrix<double, 6, 6> &);
template Eigen::Matrix<double, 6, 6> toSe3Covariance<double>(const Eigen::Matrix<double, 3, 3> &);
} }
