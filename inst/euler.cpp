// forces clang to instantiate the function templates; bodies come from /repo's headers
#include "romea_core_common/math/EulerAngles.hpp"
#include "romea_core_common/coordinates/PolarCoordinates.hpp"
#include "romea_core_common/coordinates/SphericalCoordinates.hpp"
namespace romea { namespace core {
template double between0And2Pi<double>(double);
template double betweenMinusPiAndPi<double>(double);
template double rotation2DToEulerAngle<double>(const Eigen::Matrix<double, 2, 2> &);
template Eigen::Matrix<double, 2, 2> eulerAngleToRotation2D<double>(const double &);
template Eigen::Matrix<double, 3, 1> rotation3DToEulerAngles<double>(const Eigen::Matrix<double, 3, 3> &);
template Eigen::Matrix<double, 3, 1> quaternionToEulerAngles<double>(const Eigen::Quaternion<double> &);
template Eigen::Quaternion<double> eulerAnglesToQuaternion<double>(const Eigen::Matrix<double, 3, 1> &);
template Eigen::Matrix<double, 3, 3> eulerAnglesToRotation3D<double>(const Eigen::Matrix<double, 3, 1> &);
template PolarCoordinates<double> toPolar<double>(const CartesianCoordinates2<double> &);
template CartesianCoordinates2<double> toCartesian<double>(const PolarCoordinates<double> &);
template SphericalCoordinates<double> toSpherical<double>(const CartesianCoordinates3<double> &);
template CartesianCoordinates3<double> toCartesian<double>(const SphericalCoordinates<double> &);
} }
