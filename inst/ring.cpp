// forces clang to instantiate the member functions; bodies come from /repo's headers
#include "romea_core_common/containers/Eigen/RingOfEigenVector.hpp"
template class romea::core::RingOfEigenVector<Eigen::Vector2d>;
