// forces clang to instantiate the member functions; bodies come from /repo's headers
#include "romea_core_common/concurrency/SharedVariable.hpp"
#include "romea_core_common/concurrency/SharedOptionalVariable.hpp"
template class romea::core::SharedVariable<double>;
template class romea::core::SharedOptionalVariable<double>;
