// forces clang to instantiate the member functions; bodies come from /repo's headers
#include "romea_core_common/containers/grid/WrappableGrid.hpp"
template class romea::core::Grid<int, 2>;
template class romea::core::Grid<int, 3>;
template class romea::core::WrappableGrid<int, 2>;
template class romea::core::WrappableGrid<int, 3>;
