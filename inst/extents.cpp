// forces clang to instantiate the member functions / function templates; bodies come from /repo's headers
#include "romea_core_common/math/Interval.hpp"
#include "romea_core_common/containers/Eigen/EigenContainers.hpp"
#include "romea_core_common/containers/Eigen/VectorOfEigenVector.hpp"
template class romea::core::Interval<double, 2>;
template class romea::core::Interval<double, 3>;
template class romea::core::Interval<double, 1>;
namespace romea { namespace core {
// min()/max() use PointType::min(point): they only instantiate for Eigen::Array point types
template Eigen::Array2d min<VectorOfEigenVector<Eigen::Array2d>>(const VectorOfEigenVector<Eigen::Array2d> &);
template Eigen::Array2d max<VectorOfEigenVector<Eigen::Array2d>>(const VectorOfEigenVector<Eigen::Array2d> &);
template Eigen::Vector2d mean<VectorOfEigenVector<Eigen::Vector2d>>(const VectorOfEigenVector<Eigen::Vector2d> &);
} }
