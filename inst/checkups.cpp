// forces clang to instantiate the member functions; bodies come from /repo's headers
#include "romea_core_common/diagnostic/CheckupEqualTo.hpp"
#include "romea_core_common/diagnostic/CheckupGreaterThan.hpp"
#include "romea_core_common/diagnostic/CheckupLowerThan.hpp"
template class romea::core::Checkup<double>;
template class romea::core::CheckupEqualTo<double>;
template class romea::core::CheckupGreaterThan<double>;
template class romea::core::CheckupLowerThan<double>;
template std::string romea::core::toStringInfoValue<double>(const double &);
