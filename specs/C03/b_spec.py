"""C03 -- Lambert conformal conic projection: exact-arithmetic verification conditions on the real code (back end B).

What is decided, for every parameter set / point of the stated domain (reals, libm functions as mathematical functions):
  * forward map: central meridian -> x = xs; polar form about (xs, ys); CONFORMAL: the formal partial derivatives of the code's
    own output (tools/symalg.py sdiff, textbook rules) satisfy  X_lon X_lat + Y_lon Y_lat = 0  and
    (X_lon^2 + Y_lon^2) M^2 = (X_lat^2 + Y_lat^2) (N cos lat)^2  with  M / N = (1 - e^2) / (1 - e^2 sin^2 lat)
    (equal local scale along the parallel and along the meridian);
  * computeProjectionParameters (secant): parallel scale n rho(lat_i) / (N(lat_i) cos lat_i) = 1 on both standard parallels,
    origin (lat0, lon0) -> (x0, y0), c and n have the same sign; (tangent): n = sin lat0, scale k0 on the tangent parallel, origin;
  * inverse map on an image of the forward map (either hemisphere): the argument of the logarithm is positive, longitude recovered
    exactly, the isometric latitude handed to the fixed-point loop is that of the original latitude, the original latitude is a
    fixed point of the loop body and the exit test is met there.
NOT decided (stated): rounding and the 1e-11 rad tolerance, convergence / contraction of the fixed-point loop (only: the true
latitude is a fixed point at which the loop exits), injectivity of the isometric latitude (L1 != L2 assumed for lat1 != lat2)."""
import sys, os
sys.path.insert(0, os.path.join(os.path.dirname(os.path.dirname(os.path.dirname(os.path.abspath(__file__)))), 'tools'))
from emit_smt import app, land, lor, lnot, implies, add, sub, mul, neg, num
from front import ExtractError
import symalg


def need(cond, what):
    """the VCs below name sub-terms of the extracted code; when the code no longer has that shape the check gives no verdict (exit 2)"""
    if not cond:
        raise ExtractError('C03 spec: the extracted code no longer contains the expected term: ' + str(what)[:300])


def subterms(term, head):
    """all sub-terms of an SMT term with the given head, outermost first"""
    out = []

    def walk(t):
        if isinstance(t, list):
            if t and t[0] == head:
                out.append(symalg.sshow(t))
            for x in t[1:]:
                walk(x)
    walk(symalg.sparse(term))
    return list(dict.fromkeys(out))


def args_of(term):
    return [symalg.sshow(x) for x in symalg.sparse(term)[1:]]


def S(t): return app('f_sin', t)
def C(t): return app('f_cos', t)
def EXP(t): return app('f_exp', t)
def sq(t): return mul(t, t)
def gt0(t): return app('>', t, '0.0')
def eq(a, b): return app('=', a, b)


def vcs(B):
    B.unit('src/geodesy/LambertConverter.cpp')
    P_ = 'romea::core::LambertConverter'
    B.function('LC__toLambert', P_, 'toLambert')
    B.function('LC__toWGS84', P_, 'toWGS84')
    B.function('LC__isolat', P_, 'computeIsometricLatitude')
    B.function('LC__lat', P_, 'computeLatitude')
    B.function('LC__N', P_, 'computeGrandeNormal')
    B.function('LC__secant', P_, 'computeProjectionParameters', sig='(const romea::core::LambertConverter::SecantProjectionParameters &, const romea::core::EarthEllipsoid &)')
    B.function('LC__tangent', P_, 'computeProjectionParameters', sig='(const romea::core::LambertConverter::TangentProjectionParameters &, const romea::core::EarthEllipsoid &)')
    B.function('LC__ctor_secant', P_, 'LambertConverter', sig='(const romea::core::LambertConverter::SecantProjectionParameters &, const romea::core::EarthEllipsoid &)')
    B.function('LC__ctor_tangent', P_, 'LambertConverter', sig='(const romea::core::LambertConverter::TangentProjectionParameters &, const romea::core::EarthEllipsoid &)')
    B.function('LC__ctor_params', P_, 'LambertConverter', sig='(const romea::core::LambertConverter::ProjectionParameters &, const double &)')
    B.function('LC__ctor_6', P_, 'LambertConverter', nparams=6)
    B.extract()
    B.loop_handler = B.fixed_point_loop
    B.decls['pi'] = 'Real'
    PIB = '(and (< 3.14159265358979 pi) (< pi 3.14159265358980))'

    # =========================== forward map with arbitrary projection constants ===========================
    lam0, n, c, xs, ys, e = (B.real(x) for x in ('lam0', 'n', 'c', 'xs', 'ys', 'e'))
    conv = {'longitude0_': lam0, 'n_': n, 'c_': c, 'xs_': xs, 'ys_': ys, 'e_': e}
    lat, lon = B.real('lat'), B.real('lon')
    XY = B.call('LC__toLambert', conv, B.make('WGS84Coordinates', latitude=lat, longitude=lon))
    X, Y = XY[0], XY[1]
    iso = B.call('LC__isolat', lat, e)
    fwd_obl = B.take_obligations()
    ff = ['LC__toLambert', 'LC__isolat']
    sl, cl = S(lat), C(lat)
    # the ingredients of the code's expressions are located by their head symbol, and what they must be is stated as VCs below
    # (a changed exponent, argument or sign then refutes a VC instead of breaking the generation of the VCs)
    tans, pows = subterms(iso, 'f_tan'), subterms(iso, 'f_pow')
    need(len(tans) == 1 and len(pows) == 1, ('one tan and one pow in computeIsometricLatitude', iso))
    tanu, powb = tans[0], pows[0]
    u = args_of(tanu)[0]
    beta, expo = args_of(powb)
    sins, exps = subterms(X, 'f_sin'), subterms(X, 'f_exp')
    need(len(exps) == 1 and len(sins) >= 1, ('one exp and a sin in toLambert', X))
    theta = [args_of(t)[0] for t in sins if lon in t][0] if any(lon in t for t in sins) else None
    need(theta is not None and S(theta) in X and C(theta) in Y, ('sin/cos of the same polar angle in x and y', X))
    E = exps[0]
    need(E in Y, ('the same radial factor in x and y', Y))
    B.vc('toLambert.polar_angle_is_n_times_longitude_difference', eq(theta, mul(n, sub(lon, lam0))), [], functions=['LC__toLambert'])
    B.vc('toLambert.radial_exponent_is_minus_n_times_isometric_latitude', eq(args_of(E)[0], neg(mul(n, iso))), [], functions=['LC__toLambert'])
    B.vc('isometric_latitude.tan_argument_is_quarter_pi_plus_half_lat', eq(u, add('(/ pi 4.0)', app('/', lat, '2.0'))), [], functions=['LC__isolat'])
    for t in (lat, u, theta):
        B.libm('sin', [t], 'true'); B.libm('cos', [t], 'true')
    edom = [app('<=', '0.0', e), app('<=', e, '0.1')]
    latdom = [PIB, app('<', '(- (/ pi 2.0))', lat), app('<', lat, '(/ pi 2.0)')]
    W = sub('1.0', mul(sq(e), sq(sl)))

    # ---- lemmas about the ingredients of the isometric latitude --------------------------------------------------
    su, cu = S(u), C(u)
    half = [B.axiom('sin_half', add('(/ pi 2.0)', lat), u), B.axiom('sin_add', '(/ pi 2.0)', lat), B.axiom('cos_add', '(/ pi 2.0)', lat), B.axiom('trig_half_pi')]
    B.vc('lemma.double_angle_of_quarter_pi_plus_half_lat', land(eq(mul('2.0', mul(su, cu)), cl), eq(sub(sq(cu), sq(su)), neg(sl))), latdom + half, functions=ff)
    B.vc('lemma.sin_cos_of_quarter_pi_plus_half_lat_positive', land(gt0(su), gt0(cu), gt0(cl)),
         latdom + half + [B.axiom('cos_positive_open_half', u), B.axiom('cos_positive_open_half', lat), eq(mul('2.0', mul(su, cu)), cl)], functions=ff)
    B.vc('lemma.ratio_1_minus_e_sin_over_1_plus_e_sin_positive', land(gt0(beta), gt0(sub('1.0', mul(e, sl))), gt0(add('1.0', mul(e, sl)))), edom, functions=ff)
    powdef = B.axiom('pow_def', beta, expo)
    B.libm('exp', [mul(expo, app('f_log', beta))], 'true')
    B.vc('lemma.pow_term_positive', gt0(powb), edom + [gt0(beta), powdef], functions=ff)
    B.vc('lemma.tan_term_positive', land(gt0(tanu), eq(mul(tanu, cu), su)), [gt0(su), gt0(cu)], functions=ff)
    # domain obligations of the forward map (log of a positive number, positive base of pow, non-zero denominators)
    k = 0
    for kind, cond, pc in dict.fromkeys(fwd_obl):
        k += 1
        B.vc('toLambert.domain.%s.%d' % (kind, k), implies(pc, cond), edom + latdom + [gt0(tanu), gt0(powb), gt0(beta), gt0(add('1.0', mul(e, sl)))], functions=ff)

    # ---- C03: d(isometric latitude)/d(lat) = (1 - e^2) / ((1 - e^2 sin^2 lat) cos lat), on the code's own expression ------
    d_iso = symalg.sdiff(iso, lat)
    pg, tg, sug, cug, slg, clg = (B.real(x) for x in ('pow_gen', 'tan_gen', 'sin_u_gen', 'cos_u_gen', 'sin_lat_gen', 'cos_lat_gen'))
    GEN_ISO = [(powb, pg), (tanu, tg), (su, sug), (cu, cug), (sl, slg), (cl, clg)]
    iso_facts = [gt0(pg), gt0(tg), eq(mul(tg, cug), sug), gt0(sug), gt0(cug), gt0(clg), eq(add(sq(slg), sq(clg)), '1.0'), eq(add(sq(sug), sq(cug)), '1.0'),
                 eq(mul('2.0', mul(sug, cug)), clg), eq(sub(sq(cug), sq(sug)), neg(slg))]
    Wg = sub('1.0', mul(sq(e), sq(slg)))
    B.vc('isometric_latitude.derivative_is_(1-e2)_over_(1-e2_sin2)_cos', eq(mul(mul(d_iso, W), cl), sub('1.0', sq(e))), edom + iso_facts, functions=ff, timeout=240, subst=GEN_ISO)

    # ---- C03: central meridian, polar form, conformality ---------------------------------------------------------------
    B.vc('toLambert.central_meridian_maps_to_x_equals_xs', eq(X, xs), [eq(lon, lam0), B.axiom('trig_zero')], functions=ff)
    B.vc('toLambert.on_central_meridian_y_is_ys_minus_radius', eq(Y, sub(ys, mul(c, E))), [eq(lon, lam0), B.axiom('trig_zero')], functions=ff)
    Eg, stg, ctg, dig = (B.real(x) for x in ('E_gen', 'sin_theta_gen', 'cos_theta_gen', 'd_iso_gen'))
    B.vc('toLambert.polar_form_about_xs_ys', eq(add(sq(sub(X, xs)), sq(sub(Y, ys))), sq(mul(c, E))), [], functions=ff, subst=[(E, Eg)])
    Xlon, Xlat, Ylon, Ylat = (symalg.sdiff(t, v) for t, v in ((X, lon), (X, lat), (Y, lon), (Y, lat)))
    need(d_iso in Xlat and d_iso in Ylat, 'derivative of the isometric latitude inside the derivative of the forward map')
    GEN_C = [(d_iso, dig), (E, Eg), (S(theta), stg), (C(theta), ctg), (sl, slg), (cl, clg)]
    cfacts = [eq(mul(mul(dig, Wg), clg), sub('1.0', sq(e))), gt0(Eg), eq(add(sq(stg), sq(ctg)), '1.0'), gt0(clg), eq(add(sq(slg), sq(clg)), '1.0')] + edom
    B.vc('conformal.images_of_meridian_and_parallel_are_orthogonal', eq(add(mul(Xlon, Xlat), mul(Ylon, Ylat)), '0.0'), cfacts, functions=ff, timeout=240, subst=GEN_C)
    B.vc('conformal.equal_scale_along_parallel_and_meridian',
         eq(mul(add(sq(Xlon), sq(Ylon)), sq(sub('1.0', sq(e)))), mul(add(sq(Xlat), sq(Ylat)), mul(sq(W), sq(cl)))), cfacts, functions=ff, timeout=240, subst=GEN_C)
    # the common scale is the parallel scale  k = |n| rho / (N cos lat)  with rho = |c| exp(-n iso):  X_lon^2 + Y_lon^2 = (n c E)^2
    B.vc('conformal.parallel_scale_is_n_times_radius', eq(add(sq(Xlon), sq(Ylon)), sq(mul(n, mul(c, E)))), cfacts, functions=ff, timeout=120, subst=GEN_C)

    # =========================== projection constants from two standard parallels ===========================
    a = B.real('a')
    ell = B.make('EarthEllipsoid', a=a, b=B.real('b_unused'), e2=B.real('e2_unused'), e=e)
    lat0, lat1, lat2, x0, y0 = (B.real(x) for x in ('lat0', 'lat1', 'lat2', 'x0', 'y0'))
    SP = B.call('LC__secant', B.make('LambertConverter_SecantProjectionParameters', longitude0=lam0, latitude0=lat0, latitude1=lat1, latitude2=lat2, x0=x0, y0=y0), ell)
    sec_obl = B.take_obligations()
    ns, cs, xss, yss = (B.get(SP, f) for f in ('n', 'c', 'xs', 'ys'))
    fs = ['LC__secant', 'LC__isolat', 'LC__N']
    L = {}
    for nm, t in (('0', lat0), ('1', lat1), ('2', lat2)):
        L[nm] = B.call('LC__isolat', t, e)
        B.libm('sin', [t], 'true'); B.libm('cos', [t], 'true')
    B.take_obligations()
    # spec-side prime-vertical radii: N_i > 0, N_i^2 (1 - e^2 sin^2 lat_i) = a^2
    N1, N2 = B.real('N1_spec'), B.real('N2_spec')
    nfacts = [gt0(a), gt0(N1), gt0(N2), eq(mul(sq(N1), sub('1.0', mul(sq(e), sq(S(lat1))))), sq(a)), eq(mul(sq(N2), sub('1.0', mul(sq(e), sq(S(lat2))))), sq(a))]
    N1c = B.call('LC__N', lat1, a, e)
    N2c = B.call('LC__N', lat2, a, e)
    B.take_obligations()
    B.vc('lemma.code_prime_vertical_radius_1_is_spec_N1', eq(N1c, N1), edom + nfacts, functions=fs)
    B.vc('lemma.code_prime_vertical_radius_2_is_spec_N2', eq(N2c, N2), edom + nfacts, functions=fs)
    need(N1c in cs and N2c in ns, (N1c, cs))
    c1, c2 = C(lat1), C(lat2)
    # generalise the isometric latitudes and radii to symbols
    L1g, L2g, L0g = B.real('L1_gen'), B.real('L2_gen'), B.real('L0_gen')
    GEN_S = [(L['1'], L1g), (L['2'], L2g), (L['0'], L0g), (N1c, N1), (N2c, N2)]
    Q = app('/', mul(N2, c2), mul(N1, c1))
    logQ = app('f_log', Q)
    sdom = edom + nfacts + [gt0(c1), gt0(c2), lnot(eq(L1g, L2g))]
    # n (L1 - L2) = log Q; exp(n L1) exp(-n L2) = exp(n (L1 - L2)) = Q
    ng = app('/', logQ, sub(L1g, L2g))
    B.libm('log', [Q], 'true')
    for t in (mul(ng, L1g), mul(neg(ng), L1g), mul(neg(ng), L2g), mul(ng, sub(L1g, L2g)), mul(neg(ng), L0g)):
        B.libm('exp', [t], 'true')
    sn = [lnot(eq(logQ, '0.0'))]      # N2 cos lat2 != N1 cos lat1 (distinct parallels): cone constant n != 0
    exp_facts = [B.axiom('exp_neg', mul(ng, L1g)), B.axiom('exp_add', mul(ng, L1g), mul(neg(ng), L2g)), gt0(Q)]
    B.vc('lemma.ratio_of_parallel_radii_positive', gt0(Q), sdom, functions=fs)
    # C03: scale 1 on the first standard parallel:  n rho(lat1) = N1 cos lat1,  rho(lat) = c exp(-n iso(lat))
    B.vc('secant.scale_is_one_on_parallel_1', eq(mul(ns, mul(cs, EXP(mul(neg(ns), L['1'])))), mul(N1, c1)), sdom + sn + exp_facts, functions=fs, timeout=240, subst=GEN_S)
    B.vc('secant.scale_is_one_on_parallel_2', eq(mul(ns, mul(cs, EXP(mul(neg(ns), L['2'])))), mul(N2, c2)), sdom + sn + exp_facts, functions=fs, timeout=240, subst=GEN_S)
    B.vc('secant.c_and_n_have_the_same_sign', gt0(mul(cs, ns)), sdom + sn, functions=fs, timeout=120, subst=GEN_S)
    # origin: the forward map built from these constants sends (lat0, lon0) to (x0, y0); lat0 is a mid latitude (not the pole)
    conv_s = {'longitude0_': B.get(SP, 'longitude0'), 'n_': ns, 'c_': cs, 'xs_': xss, 'ys_': yss, 'e_': e}
    O = B.call('LC__toLambert', conv_s, B.make('WGS84Coordinates', latitude=lat0, longitude=lam0))
    B.take_obligations()
    odom = [PIB, app('<=', '(- 1.4)', lat0), app('<=', lat0, '1.4'), B.axiom('trig_zero')]
    B.vc('secant.origin_maps_to_x0', eq(O[0], x0), odom, functions=fs + ff)
    B.vc('secant.origin_maps_to_y0', eq(O[1], y0), odom, functions=fs + ff)
    k = 0
    for kind, cond, pc in dict.fromkeys(sec_obl):
        k += 1
        if kind in ('log.arg_positive', 'pow.base_positive') and ('f_tan' in cond):
            continue      # domain of computeIsometricLatitude itself: decided above for every latitude (toLambert.domain.*)
        B.vc('secant.domain.%s.%d' % (kind, k), implies(pc, cond), sdom + sn + [gt0(Q)] + [gt0(sub('1.0', sq(mul(e, S(t))))) for t in (lat1, lat2)], functions=fs, subst=GEN_S)

    # =========================== projection constants from one tangent parallel and k0 ===========================
    k0 = B.real('k0')
    TP = B.call('LC__tangent', B.make('LambertConverter_TangentProjectionParameters', latitude0=lat0, longitude0=lam0, k0=k0, x0=x0, y0=y0), ell)
    tan_obl = B.take_obligations()
    nt, ct, xst, yst = (B.get(TP, f) for f in ('n', 'c', 'xs', 'ys'))
    ft = ['LC__tangent', 'LC__isolat', 'LC__N']
    N0 = B.real('N0_spec')
    N0c = B.call('LC__N', lat0, a, e)
    B.take_obligations()
    n0facts = [gt0(a), gt0(N0), eq(mul(sq(N0), sub('1.0', mul(sq(e), sq(S(lat0))))), sq(a))]
    B.vc('lemma.code_prime_vertical_radius_0_is_spec_N0', eq(N0c, N0), edom + n0facts, functions=ft)
    s0, c0 = S(lat0), C(lat0)
    tdom = edom + n0facts + [gt0(c0), lnot(eq(s0, '0.0')), app('>=', k0, '0.99'), app('<=', k0, '1.0')]
    GEN_T = [(L['0'], L0g), (N0c, N0)]
    B.libm('exp', [mul(s0, L0g)], 'true'); B.libm('exp', [mul(neg(s0), L0g)], 'true')
    B.vc('tangent.cone_constant_is_sin_lat0', eq(nt, s0), tdom, functions=ft)
    B.vc('tangent.scale_is_k0_on_the_tangent_parallel', eq(mul(nt, mul(ct, EXP(mul(neg(nt), L['0'])))), mul(k0, mul(N0, c0))), tdom + [B.axiom('exp_neg', mul(s0, L0g))], functions=ft, timeout=240, subst=GEN_T)
    B.vc('tangent.c_and_n_have_the_same_sign', gt0(mul(ct, nt)), tdom, functions=ft, timeout=120, subst=GEN_T)
    conv_t = {'longitude0_': B.get(TP, 'longitude0'), 'n_': nt, 'c_': ct, 'xs_': xst, 'ys_': yst, 'e_': e}
    OT = B.call('LC__toLambert', conv_t, B.make('WGS84Coordinates', latitude=lat0, longitude=lam0))
    B.take_obligations()
    B.vc('tangent.origin_maps_to_x0', eq(OT[0], x0), tdom + [B.axiom('trig_zero')], functions=ft + ff, subst=GEN_T)
    B.vc('tangent.origin_maps_to_y0', eq(OT[1], y0), tdom + [B.axiom('trig_zero'), B.axiom('exp_neg', mul(s0, L0g))], functions=ft + ff, timeout=240, subst=GEN_T)
    k = 0
    for kind, cond, pc in dict.fromkeys(tan_obl):
        k += 1
        if kind in ('log.arg_positive', 'pow.base_positive') and ('f_tan' in cond):
            continue
        B.vc('tangent.domain.%s.%d' % (kind, k), implies(pc, cond), tdom + [gt0(sub('1.0', sq(mul(e, s0))))], functions=ft, subst=GEN_T)

    # =========================== constructors: the converter stores the constants computed from its parameters ===========================
    # (the VCs above are about member functions of a converter whose members are the computed constants and the ellipsoid's eccentricity)
    members = ('longitude0_', 'n_', 'c_', 'xs_', 'ys_')
    fields = ('longitude0', 'n', 'c', 'xs', 'ys')
    for kind, cname, params, computed in (
            ('secant', 'LC__ctor_secant', B.make('LambertConverter_SecantProjectionParameters', longitude0=lam0, latitude0=lat0, latitude1=lat1, latitude2=lat2, x0=x0, y0=y0), SP),
            ('tangent', 'LC__ctor_tangent', B.make('LambertConverter_TangentProjectionParameters', latitude0=lat0, longitude0=lam0, k0=k0, x0=x0, y0=y0), TP)):
        obj = B.sx.arbitrary_value(('struct', 'LambertConverter'), 'ctor_%s_prior' % kind)
        B.call(cname, obj, params, ell)
        B.take_obligations()
        for mname, fname in zip(members, fields):
            B.vc('constructor.%s.%s_is_the_computed_constant' % (kind, mname), eq(obj[mname], B.get(computed, fname)), [], functions=[cname, 'LC__ctor_params', 'LC__ctor_6'])
        B.vc('constructor.%s.e_is_the_eccentricity_of_the_given_ellipsoid' % kind, eq(obj['e_'], e), [], functions=[cname, 'LC__ctor_params', 'LC__ctor_6'])
    pp = [B.real('pp_' + f) for f in fields]
    obj = B.sx.arbitrary_value(('struct', 'LambertConverter'), 'ctor_params_prior')
    B.call('LC__ctor_params', obj, B.make('LambertConverter_ProjectionParameters', **dict(zip(fields, pp))), e)
    B.take_obligations()
    for mname, v in zip(members, pp):
        B.vc('constructor.params.%s_is_the_given_constant' % mname, eq(obj[mname], v), [], functions=['LC__ctor_params', 'LC__ctor_6'])
    B.vc('constructor.params.e_is_the_given_eccentricity', eq(obj['e_'], e), [], functions=['LC__ctor_params', 'LC__ctor_6'])

    # =========================== inverse map on an image of the forward map ===========================
    B.loop_records.clear()
    G = B.call('LC__toWGS84', conv, [X, Y])
    inv_obl = B.take_obligations()
    rec = B.loop_records[-1]
    fi = ['LC__toWGS84', 'LC__lat', 'LC__toLambert', 'LC__isolat']
    isoArg = rec['locals']['isometricLatitude']
    L0it, L1it = rec['pre']['latitude'], rec['post']['latitude']
    Glat, Glon = B.get(G, 'latitude'), B.get(G, 'longitude')
    # cone constant and radius constant of either hemisphere: n != 0, |n| <= 1, c n > 0; the point lies within +-30 deg of the central meridian
    idom = [PIB, lnot(eq(n, '0.0')), app('<=', '(- 1.0)', n), app('<=', n, '1.0'), gt0(mul(c, n)),
            app('<=', '(- (/ pi 6.0))', sub(lon, lam0)), app('<=', sub(lon, lam0), '(/ pi 6.0)')]
    GEN_I = [(E, Eg), (S(theta), stg), (C(theta), ctg)]
    B.vc('lemma.polar_angle_within_open_half_pi', land(app('<', '(- (/ pi 2.0))', theta), app('<', theta, '(/ pi 2.0)')), idom, functions=fi, timeout=120)
    thfacts = [gt0(Eg), eq(add(sq(stg), sq(ctg)), '1.0'), gt0(ctg)]
    B.vc('lemma.cos_of_polar_angle_positive', gt0(C(theta)), idom + [land(app('<', '(- (/ pi 2.0))', theta), app('<', theta, '(/ pi 2.0)')), B.axiom('cos_positive_open_half', theta)], functions=fi)
    # (a) the radius: copysign(sqrt(dx^2 + dy^2), n) / c = exp(-n iso)   (positive: the logarithm is defined in both hemispheres)
    r2 = add(sq(sub(X, xs)), sq(sub(Y, ys)))
    rho_over_c = None
    for kind, cond, pc in inv_obl:
        if kind == 'log.arg_positive':
            rho_over_c = symalg.sparse(cond)[1]
    need(rho_over_c is not None, 'a logarithm in toWGS84')
    rho_over_c = symalg.sshow(rho_over_c)
    B.vc('toWGS84.radius_over_c_is_exp_of_minus_n_iso', eq(rho_over_c, E), idom + thfacts, functions=fi, timeout=240, subst=GEN_I)
    B.vc('toWGS84.log_argument_positive_in_both_hemispheres', gt0(rho_over_c), idom + thfacts, functions=fi, timeout=240, subst=GEN_I)
    # (b) the isometric latitude handed to the loop is that of the original latitude
    B.libm('log', [E], 'true')
    B.vc('toWGS84.isometric_latitude_recovered', eq(isoArg, iso), idom + thfacts + [eq(rho_over_c, E), B.axiom('log_exp', mul(neg(n), iso))], functions=fi, timeout=240)
    # (c) longitude
    gl = symalg.sparse(Glon)          # longitude0_ + <polar angle> / n_
    need(gl[0] == '+' and gl[1] == lam0 and gl[2][0] == '/' and gl[2][1][0] in ('f_atan', 'f_atan2') and gl[2][2] == n, Glon[:200])
    th_c = symalg.sshow(gl[2][1])
    need(th_c in Glon, th_c)
    th_g = th_c.replace(E, Eg).replace(S(theta), stg).replace(C(theta), ctg)
    inrange = land(app('<', '(- (/ pi 2.0))', theta), app('<', theta, '(/ pi 2.0)'))
    # atan: tan is injective on (-pi/2, pi/2); atan2: (sin, cos) is injective on (-pi, pi]
    inj = B.axiom('tan_injective', th_g, theta) if gl[2][1][0] == 'f_atan' else B.axiom('sincos_injective', th_g, theta)
    B.vc('toWGS84.polar_angle_recovered', eq(th_c, theta), idom + thfacts + [inrange, inj], functions=fi, timeout=240, subst=GEN_I)
    B.vc('toWGS84.longitude_recovered', eq(Glon, lon), idom + [eq(th_c, theta)], functions=fi, timeout=120)
    # (d) latitude: with the recovered isometric latitude, the original latitude is a fixed point of the loop body, and the loop exits there
    alpha = rec['locals']['alpha']
    fp_assume = [eq(L0it, lat), eq(isoArg, iso)]
    alpha_at = alpha.replace(L0it, lat)
    need(symalg.sparse(alpha_at)[0] == 'f_pow', ('alpha is a power', alpha_at))
    invb, expo_a = args_of(alpha_at)
    plog = [B.axiom('pow_def', beta, expo), B.axiom('pow_def', invb, expo_a), B.axiom('log_mul', beta, invb), B.axiom('log_exp', '0.0'), B.axiom('exp_zero'),
            B.axiom('exp_add', mul(expo, app('f_log', beta)), mul(expo_a, app('f_log', invb)))]
    B.libm('log', [beta], 'true'); B.libm('log', [invb], 'true')
    B.vc('lemma.alpha_times_pow_term_is_one', eq(mul(alpha_at, powb), '1.0'), edom + [gt0(beta), gt0(invb), eq(mul(beta, invb), '1.0')] + plog, functions=fi, timeout=240)
    B.vc('lemma.inverse_ratio_positive', land(gt0(invb), eq(mul(beta, invb), '1.0')), edom + [gt0(sub('1.0', mul(e, sl))), gt0(add('1.0', mul(e, sl)))], functions=fi)
    B.libm('exp', [iso], 'true')
    B.vc('lemma.exp_of_isometric_latitude', eq(EXP(iso), mul(tanu, powb)), [gt0(tanu), gt0(powb)], functions=fi)
    ag = B.real('alpha_gen')
    GEN_L = [(alpha_at, ag), (EXP(iso), mul(tg, pg)), (powb, pg), (tanu, tg)]
    at_u = app('f_atan', tg)
    B.libm('atan', [tg], 'true')
    L1_at = L1it.replace(L0it, lat).replace(isoArg, iso)
    B.vc('toWGS84.true_latitude_is_a_fixed_point_of_the_iteration', eq(L1_at, lat),
         latdom + [eq(mul(ag, pg), '1.0'), gt0(pg), gt0(tg), eq(mul(tg, cu), su), gt0(cu), gt0(su), B.axiom('tan_injective', at_u, u)], functions=fi, timeout=240, subst=GEN_L)
    exit_at = rec['exit_test_after_body'].replace(L0it, lat).replace(isoArg, iso)
    B.vc('toWGS84.loop_exit_test_is_met_at_the_fixed_point', exit_at, [eq(L1_at, lat)], functions=fi)
    # remaining domain obligations of the inverse on images of the forward map
    k = 0
    for kind, cond, pc in dict.fromkeys(inv_obl):
        k += 1
        if kind == 'log.arg_positive':
            continue        # decided above (toWGS84.log_argument_positive_in_both_hemispheres)
        if L0it in cond:
            # inside the loop body: 1 - e sin(iterate) != 0 and a positive pow base for any iterate (|sin| <= 1, e <= 0.1)
            B.libm('sin', [L0it], 'true')
            B.vc('toWGS84.domain.loop.%s.%d' % (kind, k), implies(pc, cond), edom, functions=fi)
            continue
        B.vc('toWGS84.domain.%s.%d' % (kind, k), implies(pc, cond), idom + thfacts, functions=fi, timeout=120, subst=GEN_I)
