"""C02 -- ENU frame: rigid, correctly oriented isometry (back end B, exact arithmetic).
Eigen::Affine3d is modelled as its 4x4 homogeneous matrix; inverse() * v is replaced by its assumed contract (exact solve)."""
import sys, os
sys.path.insert(0, os.path.join(os.path.dirname(os.path.dirname(os.path.dirname(os.path.abspath(__file__)))), 'tools'))
from emit_smt import app, land, lor, lnot, implies, add, sub, mul, neg, num


def S(t): return app('f_sin', t)
def C(t): return app('f_cos', t)


def vcs(B):
    for u in ('src/geodesy/ENUConverter.cpp', 'src/geodesy/ECEFConverter.cpp', 'src/geodesy/GeodeticCoordinates.cpp'):
        B.unit(u)
    P = 'romea::core::ENUConverter'
    B.function('ENU__setAnchor', P, 'setAnchor')
    B.function('ENU__toENU_ecef', P, 'toENU', sig='Vector3d &) const')
    B.function('ENU__toECEF_v', P, 'toECEF', nparams=1)
    B.function('ECEF__toECEF', 'romea::core::ECEFConverter', 'toECEF')
    B.extract()
    a, e2 = B.real('a'), B.real('e2')
    lat, lon, h = B.real('lat'), B.real('lon'), B.real('h')
    dom = [app('>', a, '0.0'), app('<=', '0.0', e2), app('<', e2, '1.0')]
    ecefconv = {'ellipsoid_': {'a': a, 'b': B.real('b_unused'), 'e2': e2, 'e': B.real('e_unused')}}
    conv = B.sx.default_value(('struct', 'ENUConverter'))
    conv['ecefConverter_'] = ecefconv
    # any previous frame (arbitrary old transform with a proper last row, anchored or not)
    conv['enu2ecef_'] = [B.real('old_%d' % k) for k in range(12)] + ['0.0', '0.0', '0.0', '1.0']
    conv['isAnchored_'] = B.const('old_anchored', 'Bool')
    anchor = B.make('GeodeticCoordinates', latitude=lat, longitude=lon, altitude=h)
    B.call('ENU__setAnchor', conv, anchor)
    B.take_obligations()
    M = conv['enu2ecef_']
    L = [[M[4 * i + j] for j in range(3)] for i in range(3)]
    t = [M[3], M[7], M[11]]
    for x in (lat, lon):
        B.libm('sin', [x], 'true'); B.libm('cos', [x], 'true')
    fs = ['ENU__setAnchor']
    east = [neg(S(lon)), C(lon), '0.0']
    north = [mul(neg(S(lat)), C(lon)), mul(neg(S(lat)), S(lon)), C(lat)]
    up = [mul(C(lat), C(lon)), mul(C(lat), S(lon)), S(lat)]
    for i in range(3):
        # C02: first axis east, second north, third up (the ellipsoid normal of C01) at the anchor
        B.vc('setAnchor.frame_columns_are_east_north_up[%d]' % i, land(app('=', L[i][0], east[i]), app('=', L[i][1], north[i]), app('=', L[i][2], up[i])), dom, functions=fs)
    # re-anchoring fully replaces the old frame: nothing of the previous transform survives, flag set
    olds = ['old_%d' % k for k in range(12)]
    B.vc('setAnchor.anchored_flag_set', conv['isAnchored_'], dom, functions=fs)
    B.vc('setAnchor.old_frame_fully_replaced', 'true' if not any(o in ' '.join(M) for o in olds) else 'false', dom, functions=fs)
    B.vc('setAnchor.last_row_kept', land(app('=', M[12], '0.0'), app('=', M[13], '0.0'), app('=', M[14], '0.0'), app('=', M[15], '1.0')), dom, functions=fs)
    # translation = ECEF position of the anchor (C01's forward map)
    Pa = B.call('ECEF__toECEF', ecefconv, anchor)
    B.take_obligations()
    for i in range(3):
        B.vc('setAnchor.translation_is_anchor_ecef[%d]' % i, app('=', t[i], Pa[i]), dom, functions=fs + ['ECEF__toECEF'])
    # proper rotation: R^T R = I, det = +1 (east x north = up)
    ortho = []
    for i in range(3):
        for j in range(i, 3):
            dot = add(add(mul(L[0][i], L[0][j]), mul(L[1][i], L[1][j])), mul(L[2][i], L[2][j]))
            f = app('=', dot, '1.0' if i == j else '0.0')
            ortho.append(f)
            B.vc('setAnchor.rotation_orthonormal[%d,%d]' % (i, j), f, dom, functions=fs)
    det = add(sub(mul(L[0][0], sub(mul(L[1][1], L[2][2]), mul(L[1][2], L[2][1]))), mul(L[0][1], sub(mul(L[1][0], L[2][2]), mul(L[1][2], L[2][0])))), mul(L[0][2], sub(mul(L[1][0], L[2][1]), mul(L[1][1], L[2][0]))))
    B.vc('setAnchor.rotation_determinant_plus_one', app('=', det, '1.0'), dom, functions=fs, timeout=120)

    # ---- to-local / to-ECEF on the converter anchored by setAnchor (the frame proved above) ----------------------------------
    ft = ['ENU__setAnchor', 'ENU__toENU_ecef', 'ENU__toECEF_v']
    x = B.vec('x', 3)
    y = B.vec('y', 3)
    ex = B.call('ENU__toECEF_v', conv, list(x))
    ey = B.call('ENU__toECEF_v', conv, list(y))
    d2 = lambda u, v: add(add(mul(sub(u[0], v[0]), sub(u[0], v[0])), mul(sub(u[1], v[1]), sub(u[1], v[1]))), mul(sub(u[2], v[2]), sub(u[2], v[2])))
    # C02: the frame transform preserves all Euclidean distances
    # (i) differences are mapped by the linear part, (ii) the linear part preserves the norm of every vector
    z = B.vec('z', 3)
    Lz = [add(add(mul(L[i][0], z[0]), mul(L[i][1], z[1])), mul(L[i][2], z[2])) for i in range(3)]
    for i in range(3):
        lin = add(add(mul(L[i][0], sub(x[0], y[0])), mul(L[i][1], sub(x[1], y[1]))), mul(L[i][2], sub(x[2], y[2])))
        B.vc('toECEF.difference_is_linear_part_times_difference[%d]' % i, app('=', sub(ex[i], ey[i]), lin), dom, functions=ft)
    B.vc('toECEF.linear_part_preserves_norm', app('=', add(add(mul(Lz[0], Lz[0]), mul(Lz[1], Lz[1])), mul(Lz[2], Lz[2])), add(add(mul(z[0], z[0]), mul(z[1], z[1])), mul(z[2], z[2]))), dom, functions=ft, timeout=120)
    # C02: to-local and to-ECEF are mutual inverses
    back = B.call('ENU__toENU_ecef', conv, list(ex))
    for i in range(3):
        B.vc('toENU.after_toECEF_is_identity[%d]' % i, app('=', back[i], x[i]), dom, functions=ft, timeout=120)
    e = B.vec('e', 3)
    loc = B.call('ENU__toENU_ecef', conv, list(e))
    fwd = B.call('ENU__toECEF_v', conv, list(loc))
    for i in range(3):
        B.vc('toECEF.after_toENU_is_identity[%d]' % i, app('=', fwd[i], e[i]), dom, functions=ft, timeout=120)
    # C02: the anchor maps to the origin
    o = B.call('ENU__toENU_ecef', conv, list(Pa))
    for i in range(3):
        B.vc('toENU.anchor_maps_to_origin[%d]' % i, app('=', o[i], '0.0'), dom, functions=ft + ['ECEF__toECEF'], timeout=120)
    # C02: a point d metres above the anchor maps to (0,0,d)
    d = B.real('d')
    above = B.call('ECEF__toECEF', ecefconv, B.make('GeodeticCoordinates', latitude=lat, longitude=lon, altitude=add(h, d)))
    u = B.call('ENU__toENU_ecef', conv, list(above))
    for i in range(3):
        B.vc('toENU.point_d_above_anchor_maps_to_0_0_d[%d]' % i, app('=', u[i], d if i == 2 else '0.0'), dom, functions=ft + ['ECEF__toECEF'], timeout=120)
    B.take_obligations()
    # side condition of the assumed inverse contract: the linear part is orthonormal (the same facts as setAnchor.rotation_orthonormal)
    for k, sc in enumerate(sorted(set(B.side_conditions))):
        B.vc('inverse_contract.side_condition_linear_part_orthonormal[%d]' % k, sc, dom, functions=fs)
