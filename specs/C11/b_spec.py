"""C11 -- positive semi-definiteness is preserved by the 3x3 <-> 6x6 covariance selection / embedding (back end B):
the quadratic forms agree, x^T toSe2(C) x = y^T C y for y = embed(x), and z^T toSe3(S) z = (z0,z1,z5)^T S (z0,z1,z5)."""
import sys, os
sys.path.insert(0, os.path.join(os.path.dirname(os.path.dirname(os.path.dirname(os.path.abspath(__file__)))), 'tools'))
from emit_smt import app, land, add, sub, mul, neg


def quad(M, n, v):
    acc = None
    for i in range(n):
        for j in range(n):
            t = mul(mul(v[i], M[n * i + j]), v[j])
            acc = t if acc is None else add(acc, t)
    return acc


def vcs(B):
    B.unit('inst/matrix.cpp')
    B.unit('src/geometry/Pose3D.cpp')
    B.unit('src/transform/SmartRotation3D.cpp')
    B.unit('inst/euler.cpp')
    B.function('pose_transform', '', 'operator*')
    B.function('toSe2Covariance', '', 'toSe2Covariance')
    B.function('toSe3Covariance', '', 'toSe3Covariance')
    B.extract()
    C = B.vec('C', 36)
    x = B.vec('x', 3)
    S2 = B.call('toSe2Covariance', list(C))
    y = [x[0], x[1], '0.0', '0.0', '0.0', x[2]]
    B.vc('toSe2Covariance.quadratic_form_is_that_of_the_embedded_vector', app('=', quad(S2, 3, x), quad(C, 6, y)), functions=['toSe2Covariance'])
    S = B.vec('S', 9)
    z = B.vec('z', 6)
    E = B.call('toSe3Covariance', list(S))
    B.vc('toSe3Covariance.quadratic_form_is_that_of_the_selected_vector', app('=', quad(E, 6, z), quad(S, 3, [z[0], z[1], z[5]])), functions=['toSe3Covariance'])
    back = B.call('toSe2Covariance', list(E))
    for k in range(9):
        B.vc('toSe2_of_toSe3_is_identity[%d]' % k, app('=', back[k], S[k]), functions=['toSe2Covariance', 'toSe3Covariance'])
    B.take_obligations()
    pose_action(B)


def attitude_action(B):
    """operator*(Affine3d, Pose3D) acts on the attitude as the rotation group: Rz*Ry*Rx(returned orientation) = R * Rz*Ry*Rx(orientation),
    for every proper rotation R as linear part and every result away from gimbal lock.  Three machine-checked links:
      (1) the returned orientation is rotation3DToEulerAngles applied to M = R * Rz*Ry*Rx(orientation)   [pose_transform.attitude.angles_are_read_off_*]
      (2) M is a proper rotation whenever R is                                                          [pose_transform.attitude.R_times_attitude_is_a_proper_rotation.*]
      (3) for EVERY proper rotation matrix with |M20| < 1, Rz*Ry*Rx(rotation3DToEulerAngles(M)) = M        [pose_transform.attitude.R_to_angles_to_R*, the VCs of C10 re-proved here]
    (1)-(3) give the group action by instantiation; identity-neutrality and 'successive transforms compose' for the attitude are then
    associativity of the matrix product (R2 (R1 A) = (R2 R1) A), which is not a fact about the code."""
    import importlib.util
    sp = importlib.util.spec_from_file_location('c10_b_spec', os.path.join(os.path.dirname(os.path.dirname(os.path.abspath(__file__))), 'C10', 'b_spec.py'))
    c10 = importlib.util.module_from_spec(sp); sp.loader.exec_module(c10)
    B.function('rotation3DToEulerAngles', '', 'rotation3DToEulerAngles')
    B.extract()
    B.decls['pi'] = 'Real'

    def S(t): return app('f_sin', t)
    def C(t): return app('f_cos', t)
    A = [[B.real('RA%d%d' % (i, j)) for j in range(3)] for i in range(3)]
    T = B.vec('RAT', 3)
    aff = [A[0][0], A[0][1], A[0][2], T[0], A[1][0], A[1][1], A[1][2], T[1], A[2][0], A[2][1], A[2][2], T[2], '0.0', '0.0', '0.0', '1.0']
    p = B.vec('rpp', 3)
    ang = [B.real('a_roll'), B.real('a_pitch'), B.real('a_yaw')]
    cov = B.vec('rcov', 36)
    res = B.call('pose_transform', list(aff), B.make('Pose3D', position=list(p), orientation=list(ang), covariance=list(cov)))
    B.take_obligations()
    o = B.get(res, 'orientation')
    for a in ang:
        B.libm('sin', [a], 'true'); B.libm('cos', [a], 'true')
    env = {'sx': S(ang[0]), 'cx': C(ang[0]), 'sy': S(ang[1]), 'cy': C(ang[1]), 'sz': S(ang[2]), 'cz': C(ang[2])}
    import symalg
    Rt = symalg.rot_zyx()
    Q = [[Rt[i][j].smt(env) for j in range(3)] for i in range(3)]
    M = [[add(add(mul(A[i][0], Q[0][j]), mul(A[i][1], Q[1][j])), mul(A[i][2], Q[2][j])) for j in range(3)] for i in range(3)]
    fp = ['pose_transform', 'rotation3DToEulerAngles', 'between0And2Pi']
    # (1)
    e = B.call('rotation3DToEulerAngles', [M[i][j] for i in range(3) for j in range(3)])
    B.take_obligations()
    for k, nm in enumerate(('roll', 'pitch', 'yaw')):
        B.vc('pose_transform.attitude.angles_are_read_off_R_times_attitude.' + nm, app('=', o[k], e[k]), functions=fp, timeout=120)
    # (2)
    def dot(u, v):
        return add(add(mul(u[0], v[0]), mul(u[1], v[1])), mul(u[2], v[2]))
    colA = lambda j: [A[0][j], A[1][j], A[2][j]]
    hyp = []
    for i in range(3):
        for j in range(i, 3):
            hyp.append(app('=', dot(colA(i), colA(j)), '1.0' if i == j else '0.0'))
            hyp.append(app('=', dot(A[i], A[j]), '1.0' if i == j else '0.0'))
    det3 = lambda X: add(sub(mul(X[0][0], sub(mul(X[1][1], X[2][2]), mul(X[1][2], X[2][1]))), mul(X[0][1], sub(mul(X[1][0], X[2][2]), mul(X[1][2], X[2][0])))),
                         mul(X[0][2], sub(mul(X[1][0], X[2][1]), mul(X[1][1], X[2][0]))))
    hyp.append(app('=', det3(A), '1.0'))
    # Rz*Ry*Rx(orientation) generalised to a matrix of symbols with its own orthonormality and determinant (proved for SmartRotation3D in C10)
    G = [[B.real('QG%d%d' % (i, j)) for j in range(3)] for i in range(3)]
    colG = lambda j: [G[0][j], G[1][j], G[2][j]]
    for i in range(3):
        for j in range(i, 3):
            hyp.append(app('=', dot(colG(i), colG(j)), '1.0' if i == j else '0.0'))
            hyp.append(app('=', dot(G[i], G[j]), '1.0' if i == j else '0.0'))
    hyp.append(app('=', det3(G), '1.0'))
    MG = [[add(add(mul(A[i][0], G[0][j]), mul(A[i][1], G[1][j])), mul(A[i][2], G[2][j])) for j in range(3)] for i in range(3)]
    colM = lambda j: [MG[0][j], MG[1][j], MG[2][j]]
    for i in range(3):
        for j in range(i, 3):
            B.vc('pose_transform.attitude.R_times_attitude_is_a_proper_rotation.columns[%d,%d]' % (i, j), app('=', dot(colM(i), colM(j)), '1.0' if i == j else '0.0'), hyp, functions=['pose_transform'], timeout=120)
            B.vc('pose_transform.attitude.R_times_attitude_is_a_proper_rotation.rows[%d,%d]' % (i, j), app('=', dot(MG[i], MG[j]), '1.0' if i == j else '0.0'), hyp, functions=['pose_transform'], timeout=120)
    B.vc('pose_transform.attitude.R_times_attitude_is_a_proper_rotation.det', app('=', det3(MG), '1.0'), hyp, functions=['pose_transform'], timeout=180)
    # (3)
    # 'attitude away from gimbal lock by 1e-3 rad': |sin(pitch)| <= cos(1e-3) = 0.99999950000004...; the rational bound 0.9999995 is used
    c10.matrix_route(B, c10.make_norm_axioms(B), pre='pose_transform.attitude.', bound='0.9999995')


def pose_action(B):
    """operator*(Affine3d, Pose3D): SE(3) action on the position; identity is neutral for position and attitude; composition on the position"""
    def S(t): return app('f_sin', t)
    def C(t): return app('f_cos', t)
    R = [[B.real('A%d%d' % (i, j)) for j in range(3)] for i in range(3)]
    T = B.vec('AT', 3)
    aff = [R[0][0], R[0][1], R[0][2], T[0], R[1][0], R[1][1], R[1][2], T[1], R[2][0], R[2][1], R[2][2], T[2], '0.0', '0.0', '0.0', '1.0']
    p = B.vec('pp', 3)
    ang = [B.real('roll'), B.real('pitch'), B.real('yaw')]
    cov = B.vec('cov', 36)
    pose = B.make('Pose3D', position=list(p), orientation=list(ang), covariance=list(cov))
    res = B.call('pose_transform', list(aff), pose)
    B.take_obligations()
    fp = ['pose_transform']
    for i in range(3):
        want = add(add(add(mul(R[i][0], p[0]), mul(R[i][1], p[1])), mul(R[i][2], p[2])), T[i])
        B.vc('pose_transform.position_is_R_p_plus_T[%d]' % i, app('=', B.get(res, 'position')[i], want), functions=fp)
    # identity transform is neutral: same position, same attitude as a rotation (angles equal modulo 2 pi), away from gimbal lock
    I = ['1.0', '0.0', '0.0', '0.0', '0.0', '1.0', '0.0', '0.0', '0.0', '0.0', '1.0', '0.0', '0.0', '0.0', '0.0', '1.0']
    pose2 = B.make('Pose3D', position=list(p), orientation=list(ang), covariance=list(cov))
    rid = B.call('pose_transform', list(I), pose2)
    B.take_obligations()
    for i in range(3):
        B.vc('pose_transform.identity_keeps_position[%d]' % i, app('=', B.get(rid, 'position')[i], p[i]), functions=fp)
    B.decls['pi'] = 'Real'
    for a in ang:
        B.libm('sin', [a], 'true'); B.libm('cos', [a], 'true')
    # the property's quantifier: attitude away from gimbal lock by 1e-3 rad
    gl = [app('<=', '(- (- (/ pi 2.0) 0.001))', ang[1]), app('<=', ang[1], '(- (/ pi 2.0) 0.001)'), B.axiom('cos_positive_open_half', ang[1]), B.axiom('away_from_half_pi', ang[1])]
    PI2 = '(* 2.0 pi)'
    def trunc_q(v):
        q = app('/', v, PI2)
        return app('ite', app('>=', q, '0.0'), app('to_int', q), app('-', app('to_int', app('-', q))))
    o = B.get(rid, 'orientation')
    import re as _re
    for k, nm in enumerate(('roll', 'pitch', 'yaw')):
        # the raw (un-normalised) angle inside between0And2Pi: recover it from the term by its outermost atan2 / asin application
        extra = []
        m = _re.search(r'\(f_atan2 |\(- \(f_asin ', o[k])
        raws = set(_re.findall(r'\(f_atan2 [^()]*(?:\([^()]*(?:\([^()]*(?:\([^()]*\)[^()]*)*\)[^()]*)*\)[^()]*)*\)', o[k]))
        i0 = o[k].find('(f_asin ')
        if i0 >= 0:
            depth = 0
            for j in range(i0, len(o[k])):
                depth += o[k][j] == '('
                depth -= o[k][j] == ')'
                if depth == 0:
                    break
            asin_t = o[k][i0:j + 1]
            raw = neg(asin_t)
            raws = {raw}
            extra += [B.axiom('sin_injective_half', asin_t, neg(ang[1])), B.axiom('sin_neg', ang[1]), B.axiom('sin_neg', asin_t)]
        for raw in list(raws)[:2]:
            t = trunc_q(raw)
            extra += [B.axiom('periodic_2pi', raw, neg(t)), B.axiom('periodic_2pi', raw, neg(sub(t, '1'))), B.axiom('periodic_2pi', raw, neg(add(t, '1')))]
        B.vc('pose_transform.identity_keeps_attitude.' + nm, land(app('=', S(o[k]), S(ang[k])), app('=', C(o[k]), C(ang[k]))), gl + extra, functions=fp + ['rotation3DToEulerAngles', 'between0And2Pi'], timeout=180)
    # composition on the position: (A2 A1) * p = A2 * (A1 * p)
    R2 = [[B.real('B%d%d' % (i, j)) for j in range(3)] for i in range(3)]
    T2 = B.vec('BT', 3)
    aff2 = [R2[0][0], R2[0][1], R2[0][2], T2[0], R2[1][0], R2[1][1], R2[1][2], T2[1], R2[2][0], R2[2][1], R2[2][2], T2[2], '0.0', '0.0', '0.0', '1.0']
    R21 = [[add(add(mul(R2[i][0], R[0][j]), mul(R2[i][1], R[1][j])), mul(R2[i][2], R[2][j])) for j in range(3)] for i in range(3)]
    T21 = [add(add(add(mul(R2[i][0], T[0]), mul(R2[i][1], T[1])), mul(R2[i][2], T[2])), T2[i]) for i in range(3)]
    aff21 = [R21[0][0], R21[0][1], R21[0][2], T21[0], R21[1][0], R21[1][1], R21[1][2], T21[1], R21[2][0], R21[2][1], R21[2][2], T21[2], '0.0', '0.0', '0.0', '1.0']
    step1 = B.call('pose_transform', list(aff), B.make('Pose3D', position=list(p), orientation=list(ang), covariance=list(cov)))
    step2 = B.call('pose_transform', list(aff2), B.make('Pose3D', position=list(B.get(step1, 'position')), orientation=list(ang), covariance=list(cov)))
    direct = B.call('pose_transform', list(aff21), B.make('Pose3D', position=list(p), orientation=list(ang), covariance=list(cov)))
    B.take_obligations()
    for i in range(3):
        B.vc('pose_transform.successive_transforms_compose_on_position[%d]' % i, app('=', B.get(step2, 'position')[i], B.get(direct, 'position')[i]), functions=fp, timeout=120)
    B.take_obligations()
    attitude_action(B)
    ellipse(B)


def ellipse(B):
    """Ellipse(centre, covariance, sigma): the uncertainty ellipse is the sigma-scaled principal-axis ellipse of the covariance, under the
    ASSUMED contract of Eigen::JacobiSVD on a symmetric positive semi-definite 2x2 matrix C:
        C = U diag(s0, s1) U^T,  U^T U = I,  s0 >= s1 >= 0     (for such C the SVD is an eigen-decomposition: V = U)."""
    from emit_smt import sub, lnot, implies
    B.unit('src/geometry/Ellipse.cpp')
    B.function('Ellipse__from_covariance', 'romea::core::Ellipse', 'Ellipse', sig='(const Eigen::Vector2d &, const Eigen::Matrix2d &, const double &)')
    B.extract()
    cx = B.vec('ell_centre', 2)
    Cm = [B.real('cxx'), B.real('cxy'), B.real('cxy'), B.real('cyy')]          # symmetric by construction
    sg = B.real('sigma')
    ell = B.sx.default_value(('struct', 'Ellipse'))
    B.call('Ellipse__from_covariance', ell, list(cx), list(Cm), sg)
    obl = B.take_obligations()
    fe = ['Ellipse__from_covariance']
    U = [[app('f_svd2_u%d%d' % (i, j), *Cm) for j in range(2)] for i in range(2)]
    s = [app('f_svd2_s%d' % i, *Cm) for i in range(2)]
    contract = [app('>=', s[0], s[1]), app('>=', s[1], '0.0')]
    for i in range(2):
        for j in range(2):
            contract.append(app('=', add(mul(U[0][i], U[0][j]), mul(U[1][i], U[1][j])), '1.0' if i == j else '0.0'))                 # U^T U = I
            contract.append(app('=', add(mul(mul(U[i][0], s[0]), U[j][0]), mul(mul(U[i][1], s[1]), U[j][1])), Cm[2 * i + j]))      # U diag(s) U^T = C
    dom = [app('>', sg, '0.0'), app('<=', sg, '10.0')]
    major, minor, theta = ell['majorRadius_'], ell['minorRadius_'], ell['orientation_']
    for i in range(2):
        B.vc('ellipse.centre_is_the_position[%d]' % i, app('=', ell['centerPosition_'][i], cx[i]), functions=fe)
    B.vc('ellipse.major_at_least_minor_at_least_zero', land(app('>=', major, minor), app('>=', minor, '0.0')), contract + dom, functions=fe, timeout=120)
    # R(theta) diag(major^2, minor^2) R(theta)^T / sigma^2 = C, entry by entry, with theta = atan2(U10, U00)
    def S(t): return app('f_sin', t)
    def C(t): return app('f_cos', t)
    B.libm('sin', [theta], 'true'); B.libm('cos', [theta], 'true')
    Rt = [[C(theta), neg(S(theta))], [S(theta), C(theta)]]
    d = [mul(major, major), mul(minor, minor)]
    # lemmas: the first column of U is a unit vector, so atan2(U10, U00) has cosine U00 and sine U10; major^2 = s0 sigma^2, minor^2 = s1 sigma^2
    B.vc('lemma.cos_sin_of_orientation_are_first_singular_vector', land(app('=', C(theta), U[0][0]), app('=', S(theta), U[1][0])), contract + dom, functions=fe, timeout=120)
    B.vc('lemma.squared_radii_are_scaled_singular_values', land(app('=', d[0], mul(s[0], mul(sg, sg))), app('=', d[1], mul(s[1], mul(sg, sg)))), contract + dom, functions=fe, timeout=120)
    ctg, stg, mjg, mng = B.real('cos_theta_gen'), B.real('sin_theta_gen'), B.real('major_gen'), B.real('minor_gen')
    gen = [(C(theta), ctg), (S(theta), stg), (major, mjg), (minor, mng)]
    gfacts = [app('=', ctg, U[0][0]), app('=', stg, U[1][0]), app('=', mul(mjg, mjg), mul(s[0], mul(sg, sg))), app('=', mul(mng, mng), mul(s[1], mul(sg, sg)))]
    for i in range(2):
        for j in range(i, 2):
            lhs = add(mul(mul(Rt[i][0], d[0]), Rt[j][0]), mul(mul(Rt[i][1], d[1]), Rt[j][1]))
            B.vc('ellipse.principal_axes_reproduce_the_covariance[%d,%d]' % (i, j), app('=', lhs, mul(mul(sg, sg), Cm[2 * i + j])), contract + dom + gfacts, functions=fe, timeout=240, subst=gen)
    k = 0
    for kind, cond, pc in dict.fromkeys(obl):
        k += 1
        B.vc('ellipse.domain.%s.%d' % (kind, k), implies(pc, cond), contract + dom, functions=fe, timeout=60)
    # the two uncertaintyEllipse overloads hand the position and the xy covariance (for a pose: the leading 2x2 block) to that constructor
    B.unit('src/geometry/Position2D.cpp')
    B.unit('src/geometry/Pose2D.cpp')
    B.function('uncertaintyEllipse_position', '', 'uncertaintyEllipse', sig='Position2D')
    B.function('uncertaintyEllipse_pose', '', 'uncertaintyEllipse', sig='Pose2D')
    B.extract()
    e1 = B.call('uncertaintyEllipse_position', B.make('Position2D', position=list(cx), covariance=list(Cm)), sg)
    P3 = [Cm[0], Cm[1], B.real('cxt'), Cm[2], Cm[3], B.real('cyt'), B.real('cxt'), B.real('cyt'), B.real('ctt')]
    e2 = B.call('uncertaintyEllipse_pose', B.make('Pose2D', yaw=B.real('pose_yaw'), position=list(cx), covariance=P3), sg)
    B.take_obligations()
    for nm, ee in (('position', e1), ('pose', e2)):
        same = land(*([app('=', ee[f], ell[f]) for f in ('orientation_', 'majorRadius_', 'minorRadius_')] + [app('=', ee['centerPosition_'][i], ell['centerPosition_'][i]) for i in range(2)]))
        B.vc('uncertaintyEllipse.of_a_%s_is_the_ellipse_of_its_xy_covariance' % nm, same, functions=['uncertaintyEllipse_' + nm] + fe)
