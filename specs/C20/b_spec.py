"""C20 -- bounding volumes: exact-arithmetic verification conditions (back end B)."""
import sys, os
sys.path.insert(0, os.path.join(os.path.dirname(os.path.dirname(os.path.dirname(os.path.abspath(__file__)))), 'tools'))
from emit_smt import app, land, lor, lnot, implies, add, sub, mul, neg, num, ite


def absv(t): return ite(app('>=', t, '0.0'), t, neg(t))


def vcs(B):
    B.unit('src/containers/boundingbox/AxisAlignedBoundingBox.cpp')
    B.unit('src/containers/boundingbox/OrientedBoundingBox.cpp')
    B.unit('inst/extents.cpp')
    for D in (2, 3):
        A = 'romea::core::AxisAlignedBoundingBox<double, %d>' % D
        O = 'romea::core::OrientedBoundingBox<double, %d>' % D
        B.function('AABB%d__ctor_interval' % D, A, 'AxisAlignedBoundingBox', nparams=1)
        B.function('AABB%d__toInterval' % D, A, 'toInterval')
        B.function('AABB%d__isInside' % D, A, 'isInside')
        B.function('OBB%d__isInside' % D, O, 'isInside')
        B.function('OBB%d__toAABB' % D, O, 'toAxisAlignedBoundingBox')
        B.function('ITV%d__include' % D, 'romea::core::Interval<double, %d>' % D, 'include')
        B.function('ITV%d__inside' % D, 'romea::core::Interval<double, %d>' % D, 'inside')
    B.extract()
    for D in (2, 3):
        t = 'D%d' % D
        lo, hi = B.vec('lo' + t, D), B.vec('hi' + t, D)
        p = B.vec('p' + t, D)
        # ---- AABB built from an interval reproduces that interval ----------------------------------------
        box = B.sx.default_value(('struct', 'AxisAlignedBoundingBox_double_%d' % D))
        B.call('AABB%d__ctor_interval' % D, box, {'lower_': list(lo), 'upper_': list(hi)})
        itv = B.call('AABB%d__toInterval' % D, box)
        B.domain_vcs('AABB%d' % D)
        fa = ['AABB%d__ctor_interval' % D, 'AABB%d__toInterval' % D]
        for a in range(D):
            B.vc('AABB%d.from_interval_reproduces_interval[%d]' % (D, a), land(app('=', itv['lower_'][a], lo[a]), app('=', itv['upper_'][a], hi[a])), functions=fa)
        # ---- AABB containment: every coordinate within centre +- half-extent (closed) ---------------------
        c, h = B.vec('c' + t, D), B.vec('h' + t, D)
        gbox = {'centerPosition_': list(c), 'halfWidthExtents_': list(h)}
        ins = B.call('AABB%d__isInside' % D, gbox, list(p))
        want = land(*[land(app('<=', sub(c[a], h[a]), p[a]), app('<=', p[a], add(c[a], h[a]))) for a in range(D)])
        B.vc('AABB%d.isInside_iff_within_centre_plus_minus_half_extent' % D, app('=', ins, want), functions=['AABB%d__isInside' % D])
        # ---- interval union is the componentwise hull; inside is the closed componentwise test -------------
        l2, u2 = B.vec('l2' + t, D), B.vec('u2' + t, D)
        i1 = {'lower_': list(lo), 'upper_': list(hi)}
        B.call('ITV%d__include' % D, i1, {'lower_': list(l2), 'upper_': list(u2)})
        for a in range(D):
            mn = ite(app('<', lo[a], l2[a]), lo[a], l2[a]); mx = ite(app('<', hi[a], u2[a]), u2[a], hi[a])
            B.vc('Interval%d.include_is_componentwise_hull[%d]' % (D, a), land(app('=', i1['lower_'][a], mn), app('=', i1['upper_'][a], mx)), functions=['ITV%d__include' % D])
        ii = B.call('ITV%d__inside' % D, {'lower_': list(lo), 'upper_': list(hi)}, list(p))
        B.vc('Interval%d.inside_is_closed_componentwise_test' % D, app('=', ii, land(*[land(app('<=', lo[a], p[a]), app('<=', p[a], hi[a])) for a in range(D)])), functions=['ITV%d__inside' % D])
        # ---- oriented box ------------------------------------------------------------------------------------
        R = [[B.real('R%d_%d%d' % (D, i, j)) for j in range(D)] for i in range(D)]
        obb = {'aabb_': {'centerPosition_': list(c), 'halfWidthExtents_': list(h)}, 'rotation_': [R[i][j] for i in range(D) for j in range(D)]}
        oin = B.call('OBB%d__isInside' % D, obb, list(p))
        # point expressed in the box frame: q = R^T (p - c)
        q = []
        for n in range(D):
            acc = None
            for i in range(D):
                term = mul(R[i][n], sub(p[i], c[i]))
                acc = term if acc is None else add(acc, term)
            q.append(acc)
        B.vc('OBB%d.isInside_iff_point_in_box_frame_within_half_extents' % D, app('=', oin, land(*[land(app('<=', neg(h[n]), q[n]), app('<=', q[n], h[n])) for n in range(D)])), functions=['OBB%d__isInside' % D])
        enc = B.call('OBB%d__toAABB' % D, obb)
        fo = ['OBB%d__toAABB' % D]
        hpos = [app('>=', h[n], '0.0') for n in range(D)]
        for j in range(D):
            B.vc('OBB%d.enclosing_box_keeps_centre[%d]' % (D, j), app('=', enc['centerPosition_'][j], c[j]), functions=fo)
            half = None
            for n in range(D):
                term = mul(absv(R[j][n]), h[n])
                half = term if half is None else add(half, term)
            B.vc('OBB%d.enclosing_half_extent_is_sum_abs_rotation_times_half_extent[%d]' % (D, j), app('=', enc['halfWidthExtents_'][j], half), hpos, functions=fo)
        # contains: every point c + R q' of the oriented box (|q'_n| <= h_n) lies in the enclosing box
        qq = B.vec('qq' + t, D)
        inbox = [land(app('<=', neg(h[n]), qq[n]), app('<=', qq[n], h[n])) for n in range(D)]
        for j in range(D):
            xj = None
            for n in range(D):
                term = mul(R[j][n], qq[n])
                xj = term if xj is None else add(xj, term)
            B.vc('OBB%d.enclosing_box_contains_every_point_of_the_oriented_box[%d]' % (D, j), land(app('<=', neg(enc['halfWidthExtents_'][j]), xj), app('<=', xj, enc['halfWidthExtents_'][j])), hpos + inbox, functions=fo, timeout=120)
            # tight: the corner q_n = sign(R_jn) h_n of the oriented box touches face j
            corner = None
            for n in range(D):
                term = mul(R[j][n], ite(app('>=', R[j][n], '0.0'), h[n], neg(h[n])))
                corner = term if corner is None else add(corner, term)
            B.vc('OBB%d.enclosing_box_is_tight_face_touched_by_a_corner[%d]' % (D, j), app('=', corner, enc['halfWidthExtents_'][j]), hpos, functions=fo, timeout=120)
        B.take_obligations()
