"""C14 -- ray casting geometry over the reals (back end B): Amanatides-Woo initialisation and the one-step invariant.
Invariant I(cell c, crossing parameters tMax, entry parameter t_in), for every moving axis a (direction d_a != 0, s_a = sign d_a):
   (I1) o_a + tMax_a * d_a = centre(c)_a + s_a * res / 2        tMax_a is the ray parameter at which the ray leaves cell c through its s_a face
   (I2) tMax_a - tDelta_a <= t_in <= tMax_a                     the ray is inside the slab of c along a from t_in on
and for a non-moving axis the coordinate stays in the cell's slab. {I} next {I} is a loop-free Hoare triple on the real next().
Consequence: for t in [t_in, min tMax] the ray point lies in the closed cell c, and at t = min tMax it lies on the face shared with
the next cell: every listed cell is crossed by the ray and consecutive cells share the crossing point."""
import sys, os
sys.path.insert(0, os.path.join(os.path.dirname(os.path.dirname(os.path.dirname(os.path.abspath(__file__)))), 'tools'))
from emit_smt import app, land, lor, lnot, implies, add, sub, mul, neg, num, ite

DMAXES = {'double': num('1.7976931348623157e308'), 'float': num('3.40282347e38')}
INSTANCES = [('double', 2), ('float', 2), ('double', 3), ('float', 3)]


def vcs(B):
    B.unit('src/containers/grid/RayTracing.cpp')
    B.unit('src/containers/grid/GridIndexMapping.cpp')
    B.prog.options['unroll_const_loops'] = '1'
    for sc, D in INSTANCES:
        P = 'romea::core::RayCasting<%s, %d>' % (sc, D)
        tag = 'RC%s%d' % (sc[0], D)
        B.function(tag + '__setOriginPoint', P, 'setOriginPoint')
        B.function(tag + '__setEndPoint', P, 'setEndPoint')
        B.function(tag + '__next', P, 'next')
    B.extract()
    for sc, D in INSTANCES:
        instance(Prefixed(B, '' if (sc, D) == ('double', 2) else '%s%d.' % (sc, D)), sc, D)


class Prefixed:
    """the builder with every VC name prefixed by the instantiation (double,2 keeps the bare names)"""
    def __init__(self, B, pre):
        self.__dict__['_b'], self.__dict__['_pre'] = B, pre

    def __getattr__(self, k):
        return getattr(self._b, k)

    def __setattr__(self, k, v):
        setattr(self._b, k, v)

    def vc(self, name, *a, **k):
        return self._b.vc(self._pre + name, *a, **k)


def fold(op, items):
    acc = items[0]
    for x in items[1:]:
        acc = op(acc, x)
    return acc


def instance(B, sc, D):
    """the same verification conditions for each explicit instantiation (next() is a separate hand-written specialisation in each);
    over the reals float and double differ only in the value of numeric_limits::max()"""
    tag = 'RC%s%d' % (sc[0], D)
    DMAX = DMAXES[sc]
    GI, RCS = 'GridIndexMapping_%s_%d' % (sc, D), 'RayCasting_%s_%d' % (sc, D)
    res = B.real('res')
    go = B.vec('gridorigin', D)           # flooredMinimalPositionAlongAxes_
    grid = B.sx.default_value(('struct', GI))
    grid['cellResolution_'] = res
    grid['flooredMinimalPositionAlongAxes_'] = list(go)
    centre = lambda a, idx: add(go[a], mul(add(app('to_real', idx), '0.5'), res))
    # contract of GridIndexMapping::computeCellCenterPosition (table entry = origin + (i + 1/2) res, proved in C13's A spec)
    from emit_smt import Cell
    B.overrides[GI + '__computeCellCenterPosition'] = lambda args: [centre(a, args[1].v[a] if isinstance(args[1], Cell) else args[1][a]) for a in range(D)]
    o = B.vec('o', D)
    e = B.vec('e', D)
    rc = B.sx.default_value(('struct', RCS))
    rc['gridIndexMapping_'] = Cell(grid)
    for k in ('rayOriginPoint_', 'rayEndPoint_', 'rayTMax_', 'rayTDelta_', 'rayDirection_'):
        rc[k] = [B.real('old_%s_%d' % (k, a)) for a in range(D)]
    rc['rayOriginIndexes_'] = [B.int('old_oi_%d' % a) for a in range(D)]
    rc['rayEndIndexes_'] = [B.int('old_ei_%d' % a) for a in range(D)]
    rc['rayStep_'] = [B.int('old_step_%d' % a) for a in range(D)]
    B.call(tag + '__setOriginPoint', rc, list(o))
    B.call(tag + '__setEndPoint', rc, list(e))
    obl = B.take_obligations()
    oi = rc['rayOriginIndexes_']
    base = [app('>', res, '0.0')]
    # the origin point lies in the grid (quotient >= 1/2: C13) and is different from the end point
    base += [app('>=', app('/', sub(o[a], go[a]), res), '0.5') for a in range(D)]
    base += [lnot(land(*[app('=', o[a], e[a]) for a in range(D)]))]
    sqn = fold(add, [mul(sub(e[a], o[a]), sub(e[a], o[a])) for a in range(D)])
    rng = app('f_sqrt', sqn)
    B.libm('sqrt', [sqn], 'true')
    fse = [tag + '__setOriginPoint', tag + '__setEndPoint']
    B.vc('setEndPoint.range_positive', app('>', rng, '0.0'), base, functions=fse, timeout=120)
    rv = B.real('range_gen')
    GEN = [(rng, rv)]
    gfacts = [app('>', rv, '0.0')]
    # history independence: nothing of the old traversal state survives
    olds = ['old_rayTMax_', 'old_rayTDelta_', 'old_rayDirection_', 'old_step_', 'old_ei_', 'old_rayEndPoint_']
    txt = ' '.join(str(rc[k]) for k in ('rayTMax_', 'rayTDelta_', 'rayDirection_', 'rayStep_', 'rayEndIndexes_', 'rayEndPoint_'))
    B.vc('setEndPoint.traversal_state_depends_only_on_grid_origin_end', 'true' if not any(x in txt for x in olds) else 'false', base, functions=fse)
    d = [sub(e[a], o[a]) for a in range(D)]
    for a in range(D):
        dirn, step, tmax, tdel = rc['rayDirection_'][a], rc['rayStep_'][a], rc['rayTMax_'][a], rc['rayTDelta_'][a]
        sgn = ite(app('>', d[a], '0.0'), '1', ite(app('<', d[a], '0.0'), '(- 1)', '0'))
        B.vc('setEndPoint.axis%d.step_is_sign_of_displacement' % a, app('=', step, sgn), base + gfacts, functions=fse, subst=GEN)
        moving = lnot(app('=', d[a], '0.0'))
        border = add(centre(a, oi[a]), mul(app('to_real', step), app('/', res, '2.0')))
        # (I1) at the origin cell: the ray leaves it through the s_a face at parameter tMax_a
        B.vc('setEndPoint.axis%d.tMax_is_exit_parameter_of_origin_cell' % a, implies(moving, app('=', add(o[a], mul(tmax, dirn)), border)), base + gfacts, functions=fse, subst=GEN, timeout=120)
        # (I2) with entry parameter 0: the origin point is inside the origin cell's slab
        B.vc('setEndPoint.axis%d.origin_inside_slab_of_origin_cell' % a, implies(moving, land(app('<=', sub(tmax, tdel), '0.0'), app('<=', '0.0', tmax))), base + gfacts, functions=fse, subst=GEN, timeout=120)
        B.vc('setEndPoint.axis%d.tDelta_times_abs_direction_is_resolution' % a, implies(moving, app('=', mul(tdel, ite(app('>=', dirn, '0.0'), dirn, neg(dirn))), res)), base + gfacts, functions=fse, subst=GEN, timeout=120)
        B.vc('setEndPoint.axis%d.non_moving_axis_marked_with_max' % a, implies(lnot(moving), land(app('=', tmax, DMAX), app('=', tdel, DMAX), app('=', step, '0'))), base + gfacts, functions=fse, subst=GEN)
    seen = set(); k = 0
    for kind, cond, pc in obl:
        if (kind, cond, pc) in seen or kind == 'cast.nonneg_or_trunc': continue
        seen.add((kind, cond, pc)); k += 1
        B.vc('setEndPoint.domain.%s.%d' % (kind, k), implies(pc, cond), base + gfacts, functions=fse, subst=GEN, timeout=60)

    # ---- one step of the traversal: {I} next {I} on the real next() from an arbitrary state satisfying I ---------------------------
    dirg = B.vec('dir', D); stepg = [B.int('step_%d' % a) for a in range(D)]
    tm = B.vec('tmax', D); td = B.vec('tdelta', D)
    c = [B.int('cell_%d' % a) for a in range(D)]
    t_in = B.real('t_in')
    st = B.sx.default_value(('struct', RCS))
    st['gridIndexMapping_'] = Cell(grid)
    st['rayOriginPoint_'] = list(o); st['rayEndPoint_'] = list(e)
    st['rayOriginIndexes_'] = list(oi); st['rayEndIndexes_'] = [B.int('ei_%d' % a) for a in range(D)]
    st['rayDirection_'] = list(dirg); st['rayStep_'] = list(stepg); st['rayTMax_'] = list(tm); st['rayTDelta_'] = list(td)
    cell = list(c)
    B.call(tag + '__next', st, cell)
    B.take_obligations()
    tm2 = st['rayTMax_']
    wf = [app('>', res, '0.0')]
    for a in range(D):
        # per-axis state: moving (step = sign(dir) = +-1, tDelta * |dir| = res, tMax < MAX) or not (step 0, dir 0, tMax = MAX)
        mov = land(lor(land(app('=', stepg[a], '1'), app('>', dirg[a], '0.0')), land(app('=', stepg[a], '(- 1)'), app('<', dirg[a], '0.0'))),
                   app('=', mul(td[a], ite(app('>=', dirg[a], '0.0'), dirg[a], neg(dirg[a]))), res), app('<', tm[a], DMAX), app('>=', td[a], '0.0'))
        still = land(app('=', stepg[a], '0'), app('=', dirg[a], '0.0'), app('=', tm[a], DMAX))
        wf.append(lor(mov, still))
    wf.append(lor(*[lnot(app('=', stepg[a], '0')) for a in range(D)]))     # the ray moves along at least one axis
    I = []
    for a in range(D):
        m = lnot(app('=', stepg[a], '0'))
        I.append(implies(m, app('=', add(o[a], mul(tm[a], dirg[a])), add(centre(a, c[a]), mul(app('to_real', stepg[a]), app('/', res, '2.0'))))))
        I.append(implies(m, land(app('<=', sub(tm[a], td[a]), t_in), app('<=', t_in, tm[a]))))
        I.append(implies(lnot(m), land(app('<=', sub(centre(a, c[a]), app('/', res, '2.0')), o[a]), app('<=', o[a], add(centre(a, c[a]), app('/', res, '2.0'))))))
    fn = [tag + '__next']
    tstar = fold(lambda x, y: ite(app('<', x, y), x, y), list(tm))       # crossing parameter of this step (the smallest tMax) = the new entry parameter
    # C14: moves to a face-adjacent cell at every step
    l1 = fold(add, [ite(app('>=', sub(cell[a], c[a]), '0'), sub(cell[a], c[a]), neg(sub(cell[a], c[a]))) for a in range(D)])
    B.vc('next.moves_to_a_face_adjacent_cell', app('=', l1, '1'), wf + I, functions=fn)
    for a in range(D):
        m = lnot(app('=', stepg[a], '0'))
        B.vc('next.preserves_exit_parameter_invariant.axis%d' % a, implies(m, app('=', add(o[a], mul(tm2[a], dirg[a])), add(centre(a, cell[a]), mul(app('to_real', stepg[a]), app('/', res, '2.0'))))), wf + I, functions=fn, timeout=120)
        B.vc('next.preserves_slab_invariant.axis%d' % a, implies(m, land(app('<=', sub(tm2[a], td[a]), tstar), app('<=', tstar, tm2[a]))), wf + I, functions=fn, timeout=120)
        B.vc('next.non_moving_axis_stays_in_slab.axis%d' % a, implies(lnot(m), land(app('=', cell[a], c[a]), app('=', tm2[a], tm[a]))), wf + I, functions=fn)
        # C14: only cells that the segment actually crosses: on [t_in, t*] the ray point lies in the closed cell c ...
        t = B.real('t_any')
        q = add(o[a], mul(t, dirg[a]))
        inside = land(app('<=', sub(centre(a, c[a]), app('/', res, '2.0')), q), app('<=', q, add(centre(a, c[a]), app('/', res, '2.0'))))
        B.vc('next.ray_inside_current_cell_until_crossing.axis%d' % a, inside, wf + I + [app('<=', t_in, t), app('<=', t, tstar)], functions=fn, timeout=120)
        # ... and at t* it also lies in the closed next cell (shared face): consecutive cells share the crossing point
        qs = add(o[a], mul(tstar, dirg[a]))
        inside2 = land(app('<=', sub(centre(a, cell[a]), app('/', res, '2.0')), qs), app('<=', qs, add(centre(a, cell[a]), app('/', res, '2.0'))))
        B.vc('next.crossing_point_lies_in_next_cell.axis%d' % a, inside2, wf + I, functions=fn, timeout=120)
    B.vc('next.crossing_parameter_not_before_entry', app('>=', tstar, t_in), wf + I, functions=fn)

    # ---- C14: the chain ends in the end cell and never leaves the grid --------------------------------------------------------
    # J(c): along every axis the current cell lies between the origin cell and the end cell (in the direction of travel).
    # Base: setEndPoint establishes J at the origin cell.  Step: from any state with I and J whose cell is not yet the end cell, next()
    # keeps J and brings the cell exactly one step (L1) closer to the end cell - it never picks an axis that is already at its end index,
    # because (by I1 and the floor characterisation of the end index) the exit parameter of an exhausted axis lies beyond the end point and
    # that of an unexhausted axis does not.  Hence (induction on the L1 distance, applied by hand; cast() makes exactly L1 calls of next(),
    # proved in back end A): the chain ends in the end cell and all its cells lie in the box spanned by the origin and end cells.
    ei0 = rc['rayEndIndexes_']
    efloor0 = []
    for a in range(D):
        # contract of computeCellIndexes for a point of the grid (C13): go + i res <= p < go + (i + 1) res
        for idx, pt in ((oi[a], o[a]), (ei0[a], e[a])):
            efloor0 += [app('<=', add(go[a], mul(app('to_real', idx), res)), pt), app('<', pt, add(go[a], mul(add(app('to_real', idx), '1.0'), res)))]
    for a in range(D):
        step = rc['rayStep_'][a]
        B.vc('setEndPoint.axis%d.end_cell_lies_in_the_direction_of_travel' % a,
             land(app('>=', mul(step, sub(ei0[a], oi[a])), '0'), implies(app('=', step, '0'), app('=', ei0[a], oi[a]))), base + gfacts + efloor0, functions=fse, subst=GEN, timeout=120)
    ei = st['rayEndIndexes_']
    R = B.real('range_any')
    endfacts = [app('>', R, '0.0')]
    for a in range(D):
        endfacts.append(app('=', e[a], add(o[a], mul(R, dirg[a]))))                                   # the end point is the ray point at parameter R > 0
        endfacts += [app('<=', add(go[a], mul(app('to_real', ei[a]), res)), e[a]), app('<', e[a], add(go[a], mul(add(app('to_real', ei[a]), '1.0'), res)))]
        # "not on a cell border": only the lower border matters, and only for an axis travelled in the negative direction
        endfacts.append(implies(app('=', stepg[a], '(- 1)'), app('<', add(go[a], mul(app('to_real', ei[a]), res)), e[a])))
    J = [land(app('>=', mul(stepg[a], sub(ei[a], c[a])), '0'), implies(app('=', stepg[a], '0'), app('=', ei[a], c[a]))) for a in range(D)]
    iabs = lambda t: ite(app('>=', t, '0'), t, neg(t))
    dist0 = fold(add, [iabs(sub(ei[a], c[a])) for a in range(D)])
    dist1 = fold(add, [iabs(sub(ei[a], cell[a])) for a in range(D)])
    notyet = [app('>', dist0, '0')]
    for a in range(D):
        B.vc('next.stays_between_origin_and_end_cells.axis%d' % a, land(app('>=', mul(stepg[a], sub(ei[a], cell[a])), '0'), implies(app('=', stepg[a], '0'), app('=', ei[a], cell[a]))),
             wf + I + J + notyet + endfacts, functions=fn, timeout=180)
    B.vc('next.l1_distance_to_the_end_cell_decreases_by_exactly_one', app('=', dist1, sub(dist0, '1')), wf + I + J + notyet + endfacts, functions=fn, timeout=180)
