"""C09 -- NormalAndCurvatureEstimation<Eigen::Vector3d>::compute(points, kdTree, normals, curvatures): BOUNDED stand-in (back end B).
The neighbourhood search and the eigen-decomposition (planeEstimation_: nanoflann kd-tree + Eigen::SelfAdjointEigenSolver) are used by an
ASSUMED contract: afterwards eigenValues_ are ascending and non-negative (a covariance matrix is positive semi-definite) with a positive sum,
and the first column of eigenVectors_ is a unit vector.  The repository's own part - which column becomes the normal, the flip toward the
sensor origin, the curvature formula, which point index is handed to the estimation - is executed symbolically.
Bound: a cloud of 2 points (the loop over the points is unrolled for this count), Eigen::Vector3d."""
import sys, os
sys.path.insert(0, os.path.join(os.path.dirname(os.path.dirname(os.path.dirname(os.path.abspath(__file__)))), 'tools'))
from emit_smt import app, land, lor, add, sub, mul, neg, num, Cell

NPTS = 2
BOUND = 'NormalAndCurvatureEstimation<Eigen::Vector3d>::compute on a cloud of %d points; neighbourhood search and eigen-decomposition by assumed contract' % NPTS


def fold(terms):
    acc = None
    for t in terms:
        acc = t if acc is None else add(acc, t)
    return acc


def vcs(B):
    per_point(B)
    plane_estimation(B)
    constructor(B)


def constructor(B):
    """the neighbourhood size used is the one asked for (k in 3..30 in the property's quantifier)"""
    P = 'romea::core::NormalAndCurvatureEstimation<Eigen::Matrix<double, 3, 1, 0>>'
    B.function('NCE3__ctor', P, 'NormalAndCurvatureEstimation', nparams=1)
    B.extract()
    rec = [r for r in B.prog.records if r.startswith('NormalAndCurvatureEstimation')][0]
    obj = B.sx.arbitrary_value(('struct', rec), 'ctor_prior')
    k = B.int('k_asked')
    B.call('NCE3__ctor', obj, k)
    B.take_obligations()
    B.vc('constructor.number_of_neighbours_is_the_one_asked_for', app('=', obj['numberOfNeighborPoints_'], k), [app('<=', '3', k), app('<=', k, '30')], functions=['NCE3__ctor'],
         bounded='NormalAndCurvatureEstimation<Eigen::Vector3d> constructor (no bound on its argument beyond the quantifier 3..30; listed with the bounded stand-ins of this check)')


def plane_estimation(B):
    P = 'romea::core::NormalAndCurvatureEstimation<Eigen::Matrix<double, 3, 1, 0>>'
    B.unit('src/pointset/KdTree.cpp')
    B.prog.options['opaque_calls'] = {'findNearestNeighbors', 'planeEstimation_'}
    B.function('NCE3__planeEstimation', P, 'planeEstimation_')
    B.extract()
    import symalg
    K, NP = 2, 3
    BND = 'NormalAndCurvatureEstimation<Eigen::Vector3d>::planeEstimation_ with %d neighbours in a cloud of %d points; kd-tree search and eigen-solver by assumed contract' % (K, NP)
    rec = [r for r in B.prog.records if r.startswith('NormalAndCurvatureEstimation')][0]
    obj = B.sx.arbitrary_value(('struct', rec), 'pe_prior')
    obj['numberOfNeighborPoints_'] = str(K)
    Pt = [B.vec('c%d' % k, 3) for k in range(NP)]
    pts = Cell({'size': str(NP), 'data': [list(p) for p in Pt]})
    nb = [2, 0]                      # the neighbours the kd-tree reports for the query point (any indices; concrete here so that the accumulation is executable)
    asked = []

    def knn(args):
        asked.append(args)
        obj['neighborIndexes_'] = {'size': str(K), 'data': [str(i) for i in nb]}
        return '0'
    fk = [f for f in B.prog.cname_of_id.values() if 'findNearestNeighbors' in f]
    if len(fk) != 1:
        from front import ExtractError
        raise ExtractError('C09 spec: planeEstimation_ no longer calls findNearestNeighbors exactly as one callee')
    B.overrides[fk[0]] = knn
    B.call('NCE3__planeEstimation', obj, pts, Cell(None), '1')
    obl = B.take_obligations()
    fl = ['NCE3__planeEstimation']
    # the matrix handed to the eigen-solver: the arguments of the uninterpreted eigenvalue function
    l0 = symalg.sparse(obj['eigenValues_'][0])
    if not (isinstance(l0, list) and l0[0] == 'f_eigh3_l0' and len(l0) == 10):
        from front import ExtractError
        raise ExtractError('C09 spec: eigenValues_ is not read from a SelfAdjointEigenSolver of a 3x3 matrix')
    Cm = [symalg.sshow(x) for x in l0[1:]]
    mean = [app('/', fold([Pt[i][a] for i in nb]), str(float(K))) for a in range(3)]
    for a in range(3):
        for b in range(3):
            want = app('/', fold([mul(sub(Pt[i][a], mean[a]), sub(Pt[i][b], mean[b])) for i in nb]), str(float(K)))
            B.vc('plane_estimation.matrix_given_to_the_eigen_solver[%d,%d].is_the_covariance_of_the_reported_neighbours' % (a, b), app('=', Cm[3 * a + b], want), functions=fl, bounded=BND, timeout=60)
    for i in range(3):
        B.vc('plane_estimation.eigenvalue[%d].is_stored_from_the_solver' % i, app('=', obj['eigenValues_'][i], app('f_eigh3_l%d' % i, *Cm)), functions=fl, bounded=BND)
        for j in range(3):
            B.vc('plane_estimation.eigenvector_matrix[%d,%d].is_stored_from_the_solver' % (i, j), app('=', obj['eigenVectors_'][3 * i + j], app('f_eigh3_v%d%d' % (i, j), *Cm)), functions=fl, bounded=BND)
    def val(c):
        if isinstance(c, Cell):
            return c.v
        if hasattr(c, 'container') and hasattr(c, 'key'):
            return c.container[c.key]
        return c
    if asked:
        q = val(asked[0][1])
        if isinstance(q, Cell):
            q = q.v
        asked[0] = [asked[0][0], q, val(asked[0][2])]
        B.vc('plane_estimation.neighbours_are_asked_for_the_query_point_and_count', land(*([app('=', asked[0][1][a], Pt[1][a]) for a in range(3)] + [app('=', asked[0][2], str(K))])), functions=fl, bounded=BND)


def per_point(B):
    B.unit('src/pointset/algorithms/NormalAndCurvatureEstimation.cpp')
    P = 'romea::core::NormalAndCurvatureEstimation<Eigen::Matrix<double, 3, 1, 0>>'
    B.prog.options['opaque_calls'] = {'planeEstimation_'}
    B.prog.options['const_names'] = {'CARTESIAN_DIM': 3, 'POINT_SIZE': 3}      # PointTraits<Eigen::Vector3d> (stated, not read from the AST)
    B.function('NCE3__compute_curv', P, 'compute', nparams=4, sig='KdTreeType &, ')
    B.extract()
    rec = [r for r in B.prog.records if r.startswith('NormalAndCurvatureEstimation')][0]
    obj = B.sx.arbitrary_value(('struct', rec), 'nce_prior')
    lam = [[B.real('lam_%d_%d' % (n, i)) for i in range(3)] for n in range(NPTS)]
    V = [[B.real('ev_%d_%d' % (n, k)) for k in range(9)] for n in range(NPTS)]      # row-major 3x3; column j = eigenvector of eigenvalue j
    calls = []

    def plane(args):
        n = len(calls); calls.append(args[-1])
        obj['eigenValues_'][:] = lam[n]
        obj['eigenVectors_'][:] = V[n]
        return '0'
    pe = [f for f in B.prog.cname_of_id.values() if 'planeEstimation' in f]
    if len(pe) != 1:
        from front import ExtractError
        raise ExtractError('C09 spec: compute() no longer calls planeEstimation_ exactly as one callee')
    B.overrides[pe[0]] = plane
    Pt = [B.vec('p%d' % k, 3) for k in range(NPTS)]
    pts = Cell({'size': str(NPTS), 'data': [list(p) for p in Pt]})
    nrm = Cell({'size': str(NPTS), 'data': [B.vec('nprior%d' % k, 3) for k in range(NPTS)]})
    cur = Cell({'size': str(NPTS), 'data': [B.real('cprior%d' % k) for k in range(NPTS)]})
    B.call('NCE3__compute_curv', obj, pts, Cell(None), nrm, cur)
    obl = B.take_obligations()
    fl = ['NCE3__compute_curv', 'flipNormalTowardOriginCoordinate']
    B.vc('estimation_is_run_once_per_point', app('=', str(len(calls)), str(NPTS)), functions=fl, bounded=BOUND)
    hyp_all = []
    for n in range(NPTS):
        c0 = [V[n][0], V[n][3], V[n][6]]
        hyp = [app('<=', '0.0', lam[n][0]), app('<=', lam[n][0], lam[n][1]), app('<=', lam[n][1], lam[n][2]), app('>', fold(lam[n]), '0.0'),
               app('=', fold([mul(x, x) for x in c0]), '1.0'),
               app('not', land(*[app('=', x, '0.0') for x in Pt[n]]))]
        hyp_all += hyp
        N = nrm.v['data'][n]
        k = cur.v['data'][n]
        if n < len(calls):
            B.vc('point[%d].estimation_is_run_for_that_point' % n, app('=', calls[n], str(n)), functions=fl, bounded=BOUND)
        B.vc('point[%d].normal_is_plus_or_minus_the_eigenvector_of_the_smallest_eigenvalue' % n,
             lor(land(*[app('=', N[i], c0[i]) for i in range(3)]), land(*[app('=', N[i], neg(c0[i])) for i in range(3)])), hyp, functions=fl, bounded=BOUND)
        B.vc('point[%d].normal_has_unit_length' % n, app('=', fold([mul(x, x) for x in N]), '1.0'), hyp, functions=fl, bounded=BOUND)
        # the flip tests c0 . (p / |p|) > 0; |p| = sqrt(p.p) > 0 is generalised to a symbol r > 0 and the dot product with p / r is tied to the dot
        # product with p by the identity (c0 . (p / r)) r = c0 . p (its own VC)
        rt = app('f_sqrt', fold([mul(x, x) for x in Pt[n]]))
        B.libm('sqrt', [fold([mul(x, x) for x in Pt[n]])], 'true')
        rs = B.real('norm_p_%d' % n)
        dn = fold([mul(c0[i], app('/', Pt[n][i], rt)) for i in range(3)])
        dp = fold([mul(c0[i], Pt[n][i]) for i in range(3)])
        B.vc('lemma.point[%d].norm_of_the_point_is_positive' % n, app('>', rt, '0.0'), hyp, functions=fl, bounded=BOUND)
        B.vc('lemma.point[%d].dot_with_the_unit_point_times_norm_is_dot_with_the_point' % n, app('=', mul(dn, rt), dp), hyp + [app('>', rt, '0.0')], functions=fl, bounded=BOUND, subst=[(rt, rs)])
        B.vc('point[%d].normal_points_toward_the_sensor_origin' % n, app('<=', fold([mul(N[i], Pt[n][i]) for i in range(3)]), '0.0'),
             hyp + [app('>', rt, '0.0'), app('=', mul(dn, rt), dp)], functions=fl, timeout=60, bounded=BOUND, subst=[(dn, B.real('dot_unit_%d' % n)), (rt, rs)])
        B.vc('point[%d].curvature_is_smallest_eigenvalue_over_their_sum' % n, app('=', mul(k, fold(lam[n])), lam[n][0]), hyp, functions=fl, bounded=BOUND)
        B.vc('point[%d].curvature_in_0_one_third' % n, land(app('<=', '0.0', k), app('<=', mul('3.0', k), '1.0')), hyp, functions=fl, timeout=60, bounded=BOUND)
    kk = 0
    for kind, cond, pc in dict.fromkeys(obl):
        kk += 1
        B.vc('domain.%s.%d' % (kind, kk), app('=>', pc, cond), hyp_all, functions=fl, bounded=BOUND)
