"""C09 -- NormalAndCurvatureEstimation<Eigen::Vector3d>::compute(points, kdTree, normals, curvatures): BOUNDED stand-in (back end B).
The neighbourhood search and the eigen-decomposition (planeEstimation_: nanoflann kd-tree + Eigen::SelfAdjointEigenSolver) are used by an
ASSUMED contract: afterwards eigenValues_ are ascending and non-negative (a covariance matrix is positive semi-definite) with a positive sum,
and the first column of eigenVectors_ is a unit vector.  The repository's own part - which column becomes the normal, the flip toward the
sensor origin, the curvature formula, which point index is handed to the estimation - is executed symbolically.
Bound: a cloud of 2 points (the loop over the points is unrolled for this count), Eigen::Vector3d."""
import sys, os
sys.path.insert(0, os.path.join(os.path.dirname(os.path.dirname(os.path.dirname(os.path.abspath(__file__)))), 'tools'))
from emit_smt import app, land, lor, add, sub, mul, neg, num, Cell

NPTS = 2
BOUND = 'NormalAndCurvatureEstimation<Eigen::Vector3d>::compute on a cloud of %d points; neighbourhood search and eigen-decomposition by assumed contract' % NPTS


def fold(terms):
    acc = None
    for t in terms:
        acc = t if acc is None else add(acc, t)
    return acc


def vcs(B):
    B.unit('src/pointset/algorithms/NormalAndCurvatureEstimation.cpp')
    P = 'romea::core::NormalAndCurvatureEstimation<Eigen::Matrix<double, 3, 1, 0>>'
    B.prog.options['opaque_calls'] = {'planeEstimation_'}
    B.prog.options['const_names'] = {'CARTESIAN_DIM': 3, 'POINT_SIZE': 3}      # PointTraits<Eigen::Vector3d> (stated, not read from the AST)
    B.function('NCE3__compute_curv', P, 'compute', nparams=4, sig='KdTreeType &, ')
    B.extract()
    rec = [r for r in B.prog.records if r.startswith('NormalAndCurvatureEstimation')][0]
    obj = B.sx.arbitrary_value(('struct', rec), 'nce_prior')
    lam = [[B.real('lam_%d_%d' % (n, i)) for i in range(3)] for n in range(NPTS)]
    V = [[B.real('ev_%d_%d' % (n, k)) for k in range(9)] for n in range(NPTS)]      # row-major 3x3; column j = eigenvector of eigenvalue j
    calls = []

    def plane(args):
        n = len(calls); calls.append(args[-1])
        obj['eigenValues_'][:] = lam[n]
        obj['eigenVectors_'][:] = V[n]
        return '0'
    pe = [f for f in B.prog.cname_of_id.values() if 'planeEstimation' in f]
    if len(pe) != 1:
        from front import ExtractError
        raise ExtractError('C09 spec: compute() no longer calls planeEstimation_ exactly as one callee')
    B.overrides[pe[0]] = plane
    Pt = [B.vec('p%d' % k, 3) for k in range(NPTS)]
    pts = Cell({'size': str(NPTS), 'data': [list(p) for p in Pt]})
    nrm = Cell({'size': str(NPTS), 'data': [B.vec('nprior%d' % k, 3) for k in range(NPTS)]})
    cur = Cell({'size': str(NPTS), 'data': [B.real('cprior%d' % k) for k in range(NPTS)]})
    B.call('NCE3__compute_curv', obj, pts, Cell(None), nrm, cur)
    obl = B.take_obligations()
    fl = ['NCE3__compute_curv', 'flipNormalTowardOriginCoordinate']
    B.vc('estimation_is_run_once_per_point', app('=', str(len(calls)), str(NPTS)), functions=fl, bounded=BOUND)
    hyp_all = []
    for n in range(NPTS):
        c0 = [V[n][0], V[n][3], V[n][6]]
        hyp = [app('<=', '0.0', lam[n][0]), app('<=', lam[n][0], lam[n][1]), app('<=', lam[n][1], lam[n][2]), app('>', fold(lam[n]), '0.0'),
               app('=', fold([mul(x, x) for x in c0]), '1.0'),
               app('not', land(*[app('=', x, '0.0') for x in Pt[n]]))]
        hyp_all += hyp
        N = nrm.v['data'][n]
        k = cur.v['data'][n]
        if n < len(calls):
            B.vc('point[%d].estimation_is_run_for_that_point' % n, app('=', calls[n], str(n)), functions=fl, bounded=BOUND)
        B.vc('point[%d].normal_is_plus_or_minus_the_eigenvector_of_the_smallest_eigenvalue' % n,
             lor(land(*[app('=', N[i], c0[i]) for i in range(3)]), land(*[app('=', N[i], neg(c0[i])) for i in range(3)])), hyp, functions=fl, bounded=BOUND)
        B.vc('point[%d].normal_has_unit_length' % n, app('=', fold([mul(x, x) for x in N]), '1.0'), hyp, functions=fl, bounded=BOUND)
        # the flip tests c0 . (p / |p|) > 0; |p| = sqrt(p.p) > 0 is generalised to a symbol r > 0 and the dot product with p / r is tied to the dot
        # product with p by the identity (c0 . (p / r)) r = c0 . p (its own VC)
        rt = app('f_sqrt', fold([mul(x, x) for x in Pt[n]]))
        B.libm('sqrt', [fold([mul(x, x) for x in Pt[n]])], 'true')
        rs = B.real('norm_p_%d' % n)
        dn = fold([mul(c0[i], app('/', Pt[n][i], rt)) for i in range(3)])
        dp = fold([mul(c0[i], Pt[n][i]) for i in range(3)])
        B.vc('lemma.point[%d].norm_of_the_point_is_positive' % n, app('>', rt, '0.0'), hyp, functions=fl, bounded=BOUND)
        B.vc('lemma.point[%d].dot_with_the_unit_point_times_norm_is_dot_with_the_point' % n, app('=', mul(dn, rt), dp), hyp + [app('>', rt, '0.0')], functions=fl, bounded=BOUND, subst=[(rt, rs)])
        B.vc('point[%d].normal_points_toward_the_sensor_origin' % n, app('<=', fold([mul(N[i], Pt[n][i]) for i in range(3)]), '0.0'),
             hyp + [app('>', rt, '0.0'), app('=', mul(dn, rt), dp)], functions=fl, timeout=60, bounded=BOUND, subst=[(dn, B.real('dot_unit_%d' % n)), (rt, rs)])
        B.vc('point[%d].curvature_is_smallest_eigenvalue_over_their_sum' % n, app('=', mul(k, fold(lam[n])), lam[n][0]), hyp, functions=fl, bounded=BOUND)
        B.vc('point[%d].curvature_in_0_one_third' % n, land(app('<=', '0.0', k), app('<=', mul('3.0', k), '1.0')), hyp, functions=fl, timeout=60, bounded=BOUND)
    kk = 0
    for kind, cond, pc in dict.fromkeys(obl):
        kk += 1
        B.vc('domain.%s.%d' % (kind, kk), app('=>', pc, cond), hyp_all, functions=fl, bounded=BOUND)
