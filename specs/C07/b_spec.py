"""C07 -- LeastSquares<double>: BOUNDED stand-in (back end B).  The solver's matrices are dynamic-size Eigen objects; for this run the spec binds
them to fixed sizes (N unknowns, M allocated rows, D <= M data rows, so that stale rows of an earlier, larger problem exist) and the real
computeJTJ_, computeJTY_, weightJAndY_, estimateUsingCholeskyDecomposition, weightedEstimate, setPreconditionner are executed symbolically
from ANY prior state of the object.  Every VC carries the bound and is reported as bounded, never as proved.
Assumed: JtJ.ldlt().solve(I) returns the X with JtJ X = I (written adj(JtJ)/det(JtJ) by the extractor)."""
import sys, os
sys.path.insert(0, os.path.join(os.path.dirname(os.path.dirname(os.path.dirname(os.path.abspath(__file__)))), 'tools'))
from emit_smt import app, land, add, sub, mul, neg, num

N, M, D = 2, 4, 3
BOUND = 'LeastSquares<double> with estimate size %d, %d allocated rows, data size %d (dynamic-size Eigen members bound to these sizes)' % (N, M, D)
REC = 'LeastSquares_double'


def fold(terms):
    acc = None
    for t in terms:
        acc = t if acc is None else add(acc, t)
    return acc


def vcs(B):
    B.unit('src/regression/leastsquares/LeastSquares.cpp')
    P = 'romea::core::LeastSquares<double>'
    B.prog.options['dyn_shapes'] = {REC: {'Ac_': (N, N), 'Bc_': (N, 1), 'J_': (M, N), 'Y_': (M, 1), 'W_': (M, 1), 'JtJ_': (N, N), 'inverseJtJ_': (N, N), 'JtY_': (N, 1)}}
    B.prog.options['const_members'] = {'estimateSize_': N, 'dataSize_': D}
    B.prog.options['dyn_returns'] = {'estimateUsingCholeskyDecomposition': (N, 1)}
    B.prog.options['dyn_locals'] = {'Ac': (N, N), 'Bc': (N, 1)}
    B.function('LS__computeJTJ', P, 'computeJTJ_')
    B.function('LS__computeJTY', P, 'computeJTY_')
    B.function('LS__weight', P, 'weightJAndY_')
    B.function('LS__chol', P, 'estimateUsingCholeskyDecomposition')
    B.function('LS__weighted', P, 'weightedEstimate')
    B.function('LS__setPrecond2', P, 'setPreconditionner', nparams=2)
    B.function('LS__setPrecond1', P, 'setPreconditionner', nparams=1)
    B.extract()
    fl = ['LS__computeJTJ', 'LS__computeJTY', 'LS__chol']

    def prior(tag, Ac=None, Bc=None):
        ls = B.sx.arbitrary_value(('struct', REC), tag)
        ls['estimateSize_'] = str(N)
        ls['dataSize_'] = str(D)
        if Ac is not None:
            ls['Ac_'] = list(Ac)
        if Bc is not None:
            ls['Bc_'] = list(Bc)
        return ls
    # the current problem: D rows of J and Y; rows D..M-1 are whatever an earlier problem left there
    Jc = [[B.real('J_%d_%d' % (k, i)) for i in range(N)] for k in range(D)]
    Yc = [B.real('Y_%d' % k) for k in range(D)]

    def load(ls, J=Jc, Y=Yc):
        for k in range(D):
            for i in range(N):
                ls['J_'][k * N + i] = J[k][i]
            ls['Y_'][k] = Y[k]
    jtj = lambda J, i, j: fold([mul(J[k][i], J[k][j]) for k in range(D)])
    jty = lambda J, Y, i: fold([mul(J[k][i], Y[k]) for k in range(D)])
    A_ = [[jtj(Jc, i, j) for j in range(N)] for i in range(N)]
    b_ = [jty(Jc, Yc, i) for i in range(N)]
    det = sub(mul(A_[0][0], A_[1][1]), mul(A_[0][1], A_[1][0]))
    full = [app('not', app('=', det, '0.0'))]

    # (1) identity preconditioner: the returned x satisfies the normal equations of the CURRENT rows only, from any prior object state
    I = ['1.0' if i == j else '0.0' for i in range(N) for j in range(N)]
    Z = ['0.0'] * N
    ls = prior('ls_a', I, Z)
    load(ls)
    x = B.call('LS__chol', ls)
    obl = B.take_obligations()
    for i in range(N):
        for j in range(N):
            B.vc('normal_matrix[%d,%d].is_JtJ_over_the_current_rows_only' % (i, j), app('=', ls['JtJ_'][i * N + j], A_[i][j]), functions=fl, bounded=BOUND)
        B.vc('right_hand_side[%d].is_JtY_over_the_current_rows_only' % i, app('=', ls['JtY_'][i], b_[i]), functions=fl, bounded=BOUND)
    for i in range(N):
        B.vc('cholesky_estimate.normal_equation_residual[%d].vanishes' % i, app('=', fold([mul(A_[i][j], x[j]) for j in range(N)]), b_[i]), full, functions=fl, timeout=60, bounded=BOUND)
    k = 0
    for kind, cond, pc in dict.fromkeys(obl):
        k += 1
        B.vc('cholesky_estimate.domain.%s.%d' % (kind, k), app('=>', pc, cond), full, functions=fl, bounded=BOUND)
    # (2) a second solver object in a DIFFERENT prior state gives the same answer (the answer depends on the current rows only)
    ls2 = prior('ls_b', I, Z)
    load(ls2)
    x2 = B.call('LS__chol', ls2)
    B.take_obligations()
    for i in range(N):
        B.vc('cholesky_estimate[%d].does_not_depend_on_the_prior_state_of_the_object' % i, app('=', x2[i], x[i]), full, functions=fl, bounded=BOUND)
    # (3) affine preconditioner: the result is Ac x0 + Bc with x0 the un-preconditioned solution
    Ac = [B.real('Ac_%d_%d' % (i, j)) for i in range(N) for j in range(N)]
    Bc = [B.real('Bc_%d' % i) for i in range(N)]
    ls3 = prior('ls_c', Ac, Bc)
    load(ls3)
    x3 = B.call('LS__chol', ls3)
    B.take_obligations()
    for i in range(N):
        B.vc('cholesky_estimate[%d].preconditioner_is_applied_as_Ac_x_plus_Bc' % i, app('=', x3[i], add(fold([mul(Ac[i * N + j], x[j]) for j in range(N)]), Bc[i])), full, functions=fl, timeout=60, bounded=BOUND)
    # (4) weighted variant: the normal equations of the rows scaled by their weights (minimiser of sum (w_i r_i)^2)
    fw = fl + ['LS__weight', 'LS__weighted']
    W = [B.real('W_%d' % k) for k in range(D)]
    ls4 = prior('ls_d', I, Z)
    load(ls4)
    for k in range(D):
        ls4['W_'][k] = W[k]
    x4 = B.call('LS__weighted', ls4)
    B.take_obligations()
    Jw = [[mul(Jc[k][i], W[k]) for i in range(N)] for k in range(D)]
    Yw = [mul(Yc[k], W[k]) for k in range(D)]
    Aw = [[jtj(Jw, i, j) for j in range(N)] for i in range(N)]
    bw = [jty(Jw, Yw, i) for i in range(N)]
    detw = sub(mul(Aw[0][0], Aw[1][1]), mul(Aw[0][1], Aw[1][0]))
    fullw = [app('not', app('=', detw, '0.0'))]
    for i in range(N):
        B.vc('weighted_estimate.normal_equation_residual_of_the_weighted_rows[%d].vanishes' % i, app('=', fold([mul(Aw[i][j], x4[j]) for j in range(N)]), bw[i]), fullw, functions=fw, timeout=60, bounded=BOUND)

    # (5) configuring the preconditioner replaces the whole affine map, from any prior state (a linear preconditioner has a zero offset)
    fp = ['LS__setPrecond1', 'LS__setPrecond2']
    A2 = [B.real('newAc_%d' % k) for k in range(N * N)]
    b2 = [B.real('newBc_%d' % k) for k in range(N)]
    ls5 = prior('ls_e')
    B.call('LS__setPrecond2', ls5, list(A2), list(b2))
    B.take_obligations()
    for k in range(N * N):
        B.vc('setPreconditionner_Ac_Bc.matrix[%d].is_the_given_matrix' % k, app('=', ls5['Ac_'][k], A2[k]), functions=fp, bounded=BOUND)
    for k in range(N):
        B.vc('setPreconditionner_Ac_Bc.offset[%d].is_the_given_offset' % k, app('=', ls5['Bc_'][k], b2[k]), functions=fp, bounded=BOUND)
    ls6 = prior('ls_f')
    B.call('LS__setPrecond1', ls6, list(A2))
    B.take_obligations()
    for k in range(N * N):
        B.vc('setPreconditionner_Ac.matrix[%d].is_the_given_matrix' % k, app('=', ls6['Ac_'][k], A2[k]), functions=fp, bounded=BOUND)
    for k in range(N):
        B.vc('setPreconditionner_Ac.offset[%d].is_zero_whatever_it_was' % k, app('=', ls6['Bc_'][k], '0.0'), functions=fp, bounded=BOUND)
