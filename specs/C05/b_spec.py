"""C05 -- FindRigidTransformationByLeastSquares<Eigen::Vector3d>::estimate_ (both overloads): BOUNDED stand-in (back end B).
The repository's own part of the point-to-plane estimator is (a) the row it writes for every correspondence, (b) what it hands to the
least-squares solver, (c) how it assembles the returned matrix from the solver's estimate.  The solver (LeastSquares::estimateUsingSVD) is
used by CONTRACT here (it returns some estimate vector; that the estimate minimises |J x - Y| over the rows written is C07's clause).
Bound: 2 correspondences, 3 allocated rows (the third row is whatever an earlier problem left), double, 3-D Cartesian points."""
import sys, os
sys.path.insert(0, os.path.join(os.path.dirname(os.path.dirname(os.path.dirname(os.path.abspath(__file__)))), 'tools'))
from emit_smt import app, land, add, sub, mul, neg, num, Cell

M, NPTS = 3, 2
BOUND = 'FindRigidTransformationByLeastSquares<Eigen::Vector3d> with %d correspondences, %d allocated solver rows (dynamic-size Eigen members of the solver bound to these sizes)' % (NPTS, M)
REC = 'FindRigidTransformationByLeastSquares_Eigen_Matrix_double_3_1_0'


def fold(terms):
    acc = None
    for t in terms:
        acc = t if acc is None else add(acc, t)
    return acc


def cross(a, b):
    return [sub(mul(a[1], b[2]), mul(a[2], b[1])), sub(mul(a[2], b[0]), mul(a[0], b[2])), sub(mul(a[0], b[1]), mul(a[1], b[0]))]


def vcs(B):
    B.unit('src/transform/estimation/FindRigidTransformationByLeastSquares.cpp')
    B.unit('src/regression/leastsquares/LeastSquares.cpp')
    B.unit('src/pointset/algorithms/PreconditionedPointSet.cpp')
    P = 'romea::core::FindRigidTransformationByLeastSquares<Eigen::Matrix<double, 3, 1, 0>>'
    B.prog.options['dyn_shapes'] = {'LeastSquares_double': {'Ac_': (6, 6), 'Bc_': (6, 1), 'J_': (M, 6), 'Y_': (M, 1), 'W_': (M, 1), 'JtJ_': (6, 6), 'inverseJtJ_': (6, 6), 'JtY_': (6, 1)}}
    B.prog.options['dyn_locals'] = {'J': (M, 6), 'Y': (M, 1), 'Ac': (6, 6)}
    B.prog.options['opaque_calls'] = {'setDataSize', 'estimateUsingSVD', 'setPreconditionner'}
    B.prog.options['const_names'] = {'CARTESIAN_DIM': 3}      # PointTraits<Eigen::Vector3d>::DIM (stated assumption: not read from the AST)
    B.prog.options['dyn_returns'] = {'estimateUsingSVD': (6, 1), 'getJ': (M, 6), 'getY': (M, 1)}
    B.function('P2P3__estimate_corr', P, 'estimate_', nparams=4)
    B.function('P2P3__estimate_aligned', P, 'estimate_', nparams=3)
    B.function('P2P3__setPreconditioner', P, 'setPreconditioner')
    B.extract()
    S = [B.vec('s%d' % k, 3) for k in range(NPTS)]
    Q = [B.vec('q%d' % k, 3) for k in range(NPTS)]
    Nn = [B.vec('n%d' % k, 3) for k in range(NPTS)]
    e = B.vec('est', 6)
    sizes = []
    B.overrides['LeastSquares_double__setDataSize'] = lambda args: (sizes.append(args[1]), '0')[1]
    B.overrides['LeastSquares_double__estimateUsingSVD'] = lambda args: list(e)
    mk = lambda pts: Cell({'size': str(NPTS), 'data': [list(p) for p in pts]})
    t = B.vec('par_t', 3)
    w = B.vec('par_w', 3)
    x = list(t) + list(w)

    def check(tag, fn, corr, extra):
        obj = B.sx.arbitrary_value(('struct', REC), 'p2p_prior_' + tag)
        del sizes[:]
        H = B.call(fn, obj, mk(S), mk(Q), mk(Nn), *extra)
        obl = B.take_obligations()
        J = obj['leastSquares_']['J_']; Y = obj['leastSquares_']['Y_']
        fl = [fn, 'LeastSquares_double__getJ', 'LeastSquares_double__getY']
        B.vc('%s.solver_is_sized_for_the_number_of_correspondences' % tag, app('=', sizes[0] if sizes else '-1', str(len(corr))), functions=fl, bounded=BOUND)
        for k, (a, b) in enumerate(corr):
            # linearised point-to-plane residual of correspondence k for ANY parameters (t, w): n_b . (s_a + w x s_a + t - q_b)
            moved = [add(add(S[a][i], cross(w, S[a])[i]), t[i]) for i in range(3)]
            want = fold([mul(Nn[b][i], sub(moved[i], Q[b][i])) for i in range(3)])
            got = sub(fold([mul(J[k * 6 + c], x[c]) for c in range(6)]), Y[k])
            B.vc('%s.row[%d].is_the_linearised_point_to_plane_residual_of_its_correspondence' % (tag, k), app('=', got, want), functions=fl, bounded=BOUND)
        # the returned matrix is identity + skew(w) with translation t for the solver's estimate (t, w) = (e0..e2, e3..e5)
        skew = [['1.0', neg(e[5]), e[4]], [e[5], '1.0', neg(e[3])], [neg(e[4]), e[3], '1.0']]
        for i in range(3):
            for j in range(3):
                B.vc('%s.result[%d,%d].is_identity_plus_skew_of_the_estimated_rotation' % (tag, i, j), app('=', H[4 * i + j], skew[i][j]), functions=fl, bounded=BOUND)
            B.vc('%s.result[%d,3].is_the_estimated_translation' % (tag, i), app('=', H[4 * i + 3], e[i]), functions=fl, bounded=BOUND)
        for j in range(4):
            B.vc('%s.result[3,%d].last_row_is_0_0_0_1' % (tag, j), app('=', H[12 + j], '1.0' if j == 3 else '0.0'), functions=fl, bounded=BOUND)
        return J, Y
    corr = [(1, 0), (0, 1)]
    cor = Cell({'size': str(len(corr)), 'data': [{'sourcePointIndex': str(a), 'targetPointIndex': str(b)} for a, b in corr]})
    check('with_correspondences', 'P2P3__estimate_corr', corr, [cor])
    check('aligned', 'P2P3__estimate_aligned', [(0, 0), (1, 1)], [])

    # setPreconditioner(source, target): whatever the estimator was configured with before, the solver's preconditioner is (re)set to
    # diag(1/scale, 1/scale, 1/scale, 1, 1, 1) with scale = target preconditioning matrix (0,0) - also for scale 1
    pps = [r for r in B.prog.records if r.startswith('PreconditionedPointSet')]
    if len(pps) != 1:
        from front import ExtractError
        raise ExtractError('C05 spec: expected one PreconditionedPointSet record, got %r' % (pps,))
    srcp = B.sx.arbitrary_value(('struct', pps[0]), 'pp_src')
    tgtp = B.sx.arbitrary_value(('struct', pps[0]), 'pp_tgt')
    mats = [k for k, v in tgtp.items() if isinstance(v, list) and len(v) == 16]
    if len(mats) != 1:
        from front import ExtractError
        raise ExtractError('C05 spec: PreconditionedPointSet no longer has exactly one 4x4 matrix member')
    scale = tgtp[mats[0]][0]
    given = []

    def val(c):
        if isinstance(c, Cell):
            return c.v
        if hasattr(c, 'container') and hasattr(c, 'key'):
            return c.container[c.key]
        return c
    pcs = []
    B.overrides['LeastSquares_double__setPreconditionner'] = lambda args: (given.append(val(args[1])), pcs.append(getattr(B, 'override_pc', 'true')), '0')[2]
    names = [f for f in B.prog.cname_of_id.values() if 'setPreconditionner' in f]
    for nm in names:
        B.overrides[nm] = B.overrides['LeastSquares_double__setPreconditionner']
    obj = B.sx.arbitrary_value(('struct', REC), 'p2p_prior_precond')
    B.call('P2P3__setPreconditioner', obj, srcp, tgtp)
    obl = B.take_obligations()
    fl = ['P2P3__setPreconditioner']
    nz = [app('not', app('=', scale, '0.0'))]
    B.vc('setPreconditioner.solver_preconditioner_is_set_exactly_once_whatever_the_scale', land(app('=', str(len(given)), '1'), pcs[0] if pcs else 'false'), nz, functions=fl, bounded=BOUND)
    if given:
        Acv = given[0]
        for i in range(6):
            for j in range(6):
                want = ('1.0' if i >= 3 else app('/', '1.0', scale)) if i == j else '0.0'
                B.vc('setPreconditioner.matrix[%d,%d].is_the_inverse_scale_on_the_translation_block_and_identity_elsewhere' % (i, j), app('=', Acv[6 * i + j], want), nz, functions=fl, bounded=BOUND)
