"""C04 -- closed-form (SVD) rigid registration: what the repository's own code guarantees about its result, given the ASSUMED contract of
Eigen::JacobiSVD (matrixU() and matrixV() are orthonormal), for every correspondence set (the accumulation loops are havocked: the means and
the cross-covariance are arbitrary):
   * the linear part of the returned matrix is orthonormal and has determinant +1 (a proper rotation, also when v*u^T is a reflection,
     which happens for rank-deficient cross-covariances such as coplanar 3D points);
   * the last row is (0, ..., 0, 1) and the translation is targetMean - R * sourceMean.
NOT decided (stated): exact recovery of the motion, least-squares optimality, invariance under preconditioning / order / representation
(properties of Eigen's decomposition in floating point), float instantiations, homogeneous point types."""
import sys, os
sys.path.insert(0, os.path.join(os.path.dirname(os.path.dirname(os.path.dirname(os.path.abspath(__file__)))), 'tools'))
from emit_smt import app, land, lor, lnot, implies, add, sub, mul, neg, num, ite, Cell
import symalg


def det(M, n):
    if n == 2:
        return sub(mul(M[0][0], M[1][1]), mul(M[0][1], M[1][0]))
    return add(sub(mul(M[0][0], sub(mul(M[1][1], M[2][2]), mul(M[1][2], M[2][1]))), mul(M[0][1], sub(mul(M[1][0], M[2][2]), mul(M[1][2], M[2][0])))),
               mul(M[0][2], sub(mul(M[1][0], M[2][1]), mul(M[1][1], M[2][0]))))


def vcs(B):
    B.unit('src/transform/estimation/FindRigidTransformationBySVD.cpp')
    for D in (3, 2):
        B.function('SVD%d__estimate' % D, 'romea::core::FindRigidTransformationBySVD<Eigen::Matrix<double, %d, 1, 0>>' % D, 'estimate_', nparams=2)
        B.function('SVD%d__estimate_corr' % D, 'romea::core::FindRigidTransformationBySVD<Eigen::Matrix<double, %d, 1, 0>>' % D, 'estimate_', nparams=3)
    B.extract()
    for D in (3, 2):
        for variant in ('', '_corr'):
            instance(B, D, variant)


def instance(B, D, variant):
    pre = 'dim%d%s.' % (D, '.with_correspondences' if variant else '')
    fn = 'SVD%d__estimate%s' % (D, variant)
    srcm, tgtm = B.vec('source_mean_%d' % D, D), B.vec('target_mean_%d' % D, D)
    means = [list(srcm), list(tgtm)]
    for cn in list(B.prog.functions):
        if cn == 'mean' or cn.startswith('mean_') or cn.startswith('mean__'):
            B.overrides[cn] = lambda args: means.pop(0)    # mean(sourcePoints), mean(targetPoints): arbitrary vectors (their loops are not under contract here)
    counter = [0]

    def havoc_loop(frame, s, pc):
        # accumulation loops over the correspondences: every variable they assign becomes arbitrary (a sound over-approximation)
        assigned = {}

        def root(lv):
            while isinstance(lv, tuple) and lv[0] in ('elem', 'elemx', 'field'):
                lv = lv[1]
            return lv[1] if isinstance(lv, tuple) and lv[0] == 'var' else None

        def scan(stmts):
            for st in stmts:
                if st[0] == 'assign':
                    r = root(st[1])
                    if r: assigned[r] = True
                elif st[0] == 'if':
                    scan(st[2]); scan(st[3])
                elif st[0] == 'block':
                    scan(st[1])
                elif st[0] == 'for':
                    scan(st[4])
                elif st[0] in ('while', 'dowhile'):
                    scan(st[2])
        scan(s[4]); scan(s[3])
        for v in assigned:
            if v in frame.env:
                cur = frame.env[v].v
                counter[0] += 1
                if isinstance(cur, list):
                    frame.env[v].v = [B.real('hv%d_%s_%d_%d' % (D, v, counter[0], k)) for k in range(len(cur))]
                elif isinstance(cur, str):
                    frame.env[v].v = B.real('hv%d_%s_%d' % (D, v, counter[0])) if not cur.lstrip('-').isdigit() else B.int('hvi%d_%s_%d' % (D, v, counter[0]))
        B.note('accumulation loops over the point sets / correspondences are havocked (their results are arbitrary)')
        return pc
    B.symbolic_loop = havoc_loop
    obj = B.sx.default_value(('struct', 'FindRigidTransformationBySVD_Eigen_Matrix_double_%d_1_0' % D))
    src = Cell({'size': B.int('n_src_%d' % D), 'data': None})
    tgt = Cell({'size': B.int('n_tgt_%d' % D), 'data': None})
    if variant:
        H = B.call(fn, obj, src, tgt, Cell({'size': B.int('n_corr_%d' % D), 'data': None}))
    else:
        H = B.call(fn, obj, src, tgt)
    B.take_obligations()
    N = D + 1
    # the svd results the code used: uninterpreted functions of the (arbitrary) cross-covariance coefficients, generalised to symbols
    txt = ' '.join(H)
    us = sorted(set(symalg_sub(txt, 'f_svd%d_u' % D)))
    U = [[None] * D for _ in range(D)]; V = [[None] * D for _ in range(D)]
    gen = []
    import re
    for i in range(D):
        for j in range(D):
            for letter, M in (('u', U), ('v', V)):
                terms = [t for t in subterms_with_head(txt, 'f_svd%d_%s%d%d' % (D, letter, i, j))]
                sym = B.real('%s%d_%d%d' % (letter, D, i, j))
                M[i][j] = sym
                for t in terms:
                    gen.append((t, sym))
    if not gen:
        from front import ExtractError
        raise ExtractError('C04 spec: the result no longer depends on svd.matrixU()/matrixV()')
    contract = []
    for M in (U, V):
        for i in range(D):
            for j in range(i, D):
                contract.append(app('=', fold(add, [mul(M[k][i], M[k][j]) for k in range(D)]), '1.0' if i == j else '0.0'))     # M^T M = I
                contract.append(app('=', fold(add, [mul(M[i][k], M[j][k]) for k in range(D)]), '1.0' if i == j else '0.0'))     # M M^T = I
    dU, dV = det(U, D), det(V, D)
    delta = mul(dU, dV)
    fns = [fn]
    # lemmas: an orthogonal matrix has determinant +1 or -1
    for nm, M, dM in (('U', U, dU), ('V', V, dV)):
        B.vc(pre + 'lemma.det_%s_squared_is_one' % nm, app('=', mul(dM, dM), '1.0'), contract, functions=fns, timeout=120)
    facts = contract + [app('=', mul(dU, dU), '1.0'), app('=', mul(dV, dV), '1.0')]
    # the code's reflection handling: 'if (det u * det v < 0) last column of v *= -1'.  With the svd results generalised, every conditional
    # coefficient of the result is (det u det v) times its unflipped value (lemma per coefficient), which turns the goals into polynomial identities
    def gsub(t):
        for term, sym in sorted(gen, key=lambda p: -len(p[0])):
            t = t.replace(term, sym)
        return t
    Hs = [gsub(h) for h in H]
    ites = []
    for h in Hs:
        ites += subterms_with_head(h, 'ite')
    ites = [t for t in dict.fromkeys(ites) if not any(t != o and t in o for o in ites)]       # outermost conditional terms only
    # d stands for det u * det v: d^2 = 1 and d * det u * det v = 1 (lemmas), then d is a symbol of its own
    dsym = B.real('det_u_det_v_%d%s' % (D, variant))
    B.vc(pre + 'lemma.product_of_determinants_squares_to_one', land(app('=', mul(delta, delta), '1.0'), app('=', mul(delta, mul(dU, dV)), '1.0')), facts, functions=fns, timeout=120)
    dfacts = [app('=', mul(dsym, dsym), '1.0'), app('=', mul(dsym, mul(dU, dV)), '1.0')]
    gen2, flipfacts = [], list(dfacts)
    for q, t in enumerate(ites):
        parsed = symalg.sparse(t)
        other = symalg.sshow(parsed[3])
        w = B.real('flip%d%s_%d' % (D, variant, q))
        # the lemma is stated with d = det u * det v as a symbol constrained by (d = 1 or d = -1) and its sign
        cond = symalg.sshow(parsed[1]).replace(delta, dsym) if delta in symalg.sshow(parsed[1]) else None
        B.vc(pre + 'lemma.conditional_coefficient_%d_is_det_u_det_v_times_the_unflipped_one' % q, app('=', t, mul(delta, other)),
             facts + [lor(app('=', delta, '1.0'), app('=', delta, '(- 1.0)'))], functions=fns, timeout=120)
        gen2.append((t, w)); flipfacts.append(app('=', w, mul(dsym, other)))

    def VCg(name, goal_of_H, timeout=180):
        # goals are built from the substituted result (svd symbols), then the conditional coefficients are generalised as well
        B.vc(pre + name, goal_of_H, contract + flipfacts, functions=fns, timeout=timeout, subst=gen2)
    R = [[Hs[N * i + j] for j in range(D)] for i in range(D)]
    # A = v with its last column possibly flipped (the conditional coefficients); the code's linear part is A * u^T
    wsyms = [w for _, w in gen2]
    if len(wsyms) == 0:
        # no conditional coefficient at all: the code uses v * u^T as it is (no reflection handling); the same obligations are stated
        # with A = v, and the determinant obligation is then refutable (det u det v = -1)
        wsyms = [V[k][D - 1] for k in range(D)]
    elif len(wsyms) != D:
        from front import ExtractError
        raise ExtractError('C04 spec: expected %d conditional coefficients (the flipped column of v), found %d' % (D, len(wsyms)))
    A = [[V[k][m] if m < D - 1 else wsyms[k] for m in range(D)] for k in range(D)]
    dl = lambda i, j: '1.0' if i == j else '0.0'
    AtA = [[fold(add, [mul(A[k][m], A[k][n]) for k in range(D)]) for n in range(D)] for m in range(D)]
    UUt = [[fold(add, [mul(U[i][m], U[j][m]) for m in range(D)]) for j in range(D)] for i in range(D)]
    for m in range(D):
        for n in range(m, D):
            B.vc(pre + 'lemma.flipped_v_has_orthonormal_columns[%d,%d]' % (m, n), app('=', AtA[m][n], dl(m, n)), contract + flipfacts, functions=fns, timeout=120)
    for i in range(D):
        for j in range(i, D):
            RtR = fold(add, [mul(R[k][i], R[k][j]) for k in range(D)])
            # algebraic certificate (a polynomial identity, no hypothesis):  (R^T R)_ij - delta_ij = sum_mn u_im u_jn ((A^T A)_mn - delta_mn) + ((u u^T)_ij - delta_ij)
            hyps = [(mul(U[i][m], U[j][n]), AtA[min(m, n)][max(m, n)], dl(m, n)) for m in range(D) for n in range(D)] + [('1.0', UUt[i][j], dl(i, j))]
            cert = fold(add, [mul(c, sub(l, r)) for c, l, r in hyps])
            VCg('linear_part.columns_orthonormal[%d,%d].certificate_identity' % (i, j), app('=', sub(RtR, dl(i, j)), cert), timeout=240)
            # final step: every bracket of the certificate vanishes by a hypothesis (lemmas above / contract), hence so does the left-hand side
            es, efacts, gsub2 = [], [], []
            for q, (c, l, r) in enumerate(hyps):
                # justification of each bracket: (A^T A)_mn = delta_mn is lemma.flipped_v_has_orthonormal_columns[m,n], (u u^T)_ij = delta_ij is a clause of the contract
                e = B.real('cert%d%s_%d%d_%d' % (D, variant, i, j, q))
                gsub2.append((sub(l, r), e)); efacts.append(app('=', e, '0.0'))
            B.vc(pre + 'linear_part.columns_orthonormal[%d,%d].certificate_conclusion' % (i, j), app('=', RtR, dl(i, j)), [app('=', sub(RtR, dl(i, j)), cert)] + efacts, functions=fns, timeout=120, subst=gen2 + gsub2)
            # the goal itself, stated on the result only (independent of how the code builds it): a falsification probe - a counter-model is a
            # violation whatever the shape of the code, while its proof is the certificate chain above
            B.vc(pre + 'linear_part.columns_orthonormal[%d,%d]' % (i, j), app('=', RtR, dl(i, j)), contract + flipfacts, functions=fns, timeout=20, subst=gen2, refute_only=True)
    # determinant: certificate  det R - 1 = dU * sum_k C_k (w_k - d v_k,last) + (d dU dV - 1),  C_k = cofactor of (k, last) in v
    def cof(M, k):
        rows = [r for r in range(D) if r != k]
        cols = list(range(D - 1))
        if D == 2:
            c = M[rows[0]][cols[0]]
        else:
            c = sub(mul(M[rows[0]][cols[0]], M[rows[1]][cols[1]]), mul(M[rows[0]][cols[1]], M[rows[1]][cols[0]]))
        return c if (k + D - 1) % 2 == 0 else neg(c)
    dhyps = [(mul(dU, cof(V, k)), wsyms[k], mul(dsym, V[k][D - 1])) for k in range(D)] + [('1.0', mul(dsym, mul(dU, dV)), '1.0')]
    dcert = fold(add, [mul(c, sub(l, r)) for c, l, r in dhyps])
    VCg('linear_part.determinant_is_plus_one.certificate_identity', app('=', sub(det(R, D), '1.0'), dcert), timeout=240)
    gsub3, efacts3 = [], []
    for q, (c, l, r) in enumerate(dhyps):
        # every bracket of the certificate must itself be proved to vanish (from the contract, d^2 = 1, d dU dV = 1 and the lemmas about the
        # conditional coefficients); without the reflection handling the bracket v_k,last - d v_k,last does not vanish and this VC is refuted
        B.vc(pre + 'linear_part.determinant_is_plus_one.certificate_bracket_%d_vanishes' % q, app('=', l, r), contract + flipfacts, functions=fns, timeout=120, subst=gen2)
        e = B.real('dcert%d%s_%d' % (D, variant, q))
        gsub3.append((sub(l, r), e)); efacts3.append(app('=', e, '0.0'))
    B.vc(pre + 'linear_part.determinant_is_plus_one.certificate_conclusion', app('=', det(R, D), '1.0'), [app('=', sub(det(R, D), '1.0'), dcert)] + efacts3, functions=fns, timeout=120, subst=gen2 + gsub3)
    B.vc(pre + 'linear_part.determinant_is_plus_one', app('=', det(R, D), '1.0'), contract + flipfacts, functions=fns, timeout=20, subst=gen2, refute_only=True)
    H = Hs
    gen = gen2
    facts = facts + flipfacts
    for j in range(D):
        B.vc(pre + 'last_row[%d].is_zero' % j, app('=', H[N * D + j], '0.0'), facts, functions=fns, subst=gen)
    B.vc(pre + 'last_row[%d].is_one' % D, app('=', H[N * D + D], '1.0'), facts, functions=fns, subst=gen)
    sm, tm = (srcm, tgtm) if not variant else (None, None)
    if sm is not None:
        for i in range(D):
            want = sub(tm[i], fold(add, [mul(R[i][k], sm[k]) for k in range(D)]))
            B.vc(pre + 'translation[%d].is_target_mean_minus_R_source_mean' % i, app('=', H[N * i + D], want), facts, functions=fns, timeout=120, subst=gen)


def fold(op, items):
    acc = items[0]
    for x in items[1:]:
        acc = op(acc, x)
    return acc


def subterms_with_head(text, head):
    out = []
    i = 0
    pat = '(' + head + ' '
    while True:
        i = text.find(pat, i)
        if i < 0:
            break
        depth = 0
        for j in range(i, len(text)):
            depth += text[j] == '('
            depth -= text[j] == ')'
            if depth == 0:
                break
        out.append(text[i:j + 1])
        i = j + 1
    return list(dict.fromkeys(out))


def symalg_sub(text, prefix):
    return []
