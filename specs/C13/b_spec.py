"""C13 -- GridIndexMapping<double,2|3>: index/centre arithmetic over the reals and integers (back end B).
The table-filling loop of the constructor and the table look-up are covered by back end A (specs/C13/grid_index.spec),
which proves  table[axis][n] = origin_axis + (n + 0.5) * resolution  as an expression; B proves what that expression means."""
from emit_smt import app, land, lor, lnot, implies, add, sub, mul, neg, num, ite


def skip_table_loop(frame, s, pc):
    frame.B.note('constructor loop with run-time bound (centre table) skipped in back end B: covered by back end A')
    return pc


def vcs(B):
    B.unit('src/containers/grid/GridIndexMapping.cpp')
    for D in (2, 3):
        P = 'romea::core::GridIndexMapping<double, %d>' % D
        B.function('GIM%d__ctor_interval' % D, P, 'GridIndexMapping', sig='IntervalType')
        B.function('GIM%d__ctor_range' % D, P, 'GridIndexMapping', sig='(const double &, const double &)')
        B.function('GIM%d__computeCellIndexes' % D, P, 'computeCellIndexes')
    B.extract()
    B.symbolic_loop = skip_table_loop
    for D in (2, 3):
        for form in ('interval', 'range'):
            tag = 'GIM%dd.%s' % (D, form)
            res = B.real('res_%d%s' % (D, form))
            lo = [B.real('lo%d_%d%s' % (a, D, form)) for a in range(D)]
            hi = [B.real('hi%d_%d%s' % (a, D, form)) for a in range(D)]
            p = [B.real('p%d_%d%s' % (a, D, form)) for a in range(D)]
            me = B.sx.default_value(('struct', 'GridIndexMapping_double_%d' % D))
            assume = [app('>', res, '0.0')]
            if form == 'interval':
                itv = {'lower_': list(lo), 'upper_': list(hi)}
                B.call('GIM%d__ctor_interval' % D, me, itv, res)
                for a in range(D):
                    assume.append(app('<=', lo[a], hi[a]))
            else:
                r = B.real('range_%d' % D)
                B.call('GIM%d__ctor_range' % D, me, r, res)
                assume.append(app('>=', r, '0.0'))
                lo = [neg(r)] * D
                hi = [r] * D
            B.domain_vcs(tag + '.ctor', assume, skip=('cast.nonneg_or_trunc',))
            origin = me['flooredMinimalPositionAlongAxes_']
            ncell = me['numberOfCellsAlongAxes_']
            idx = B.call('GIM%d__computeCellIndexes' % D, me, list(p))
            B.domain_vcs(tag + '.index', assume, skip=('cast.nonneg_or_trunc',))
            for a in range(D):
                inside = [app('<=', lo[a], p[a]), app('<=', p[a], hi[a])]
                centre = lambda i, a=a: add(origin[a], mul(add(i, '0.5'), res))
                q = app('/', sub(p[a], origin[a]), res)
                ir = app('to_real', idx[a])
                ax = '%s.axis%d' % (tag, a)
                # the quotient that is truncated to size_t is >= 1/2: truncation = floor and the cast is defined
                B.vc(ax + '.quotient_at_least_half', app('>=', q, '0.5'), assume + inside)
                # C13: index smaller than the number of cells
                B.vc(ax + '.index_in_bounds', land(app('>=', idx[a], '0'), app('<', idx[a], ncell[a])), assume + inside)
                # C13: the point lies within half a resolution of its cell's centre
                d = sub(p[a], centre(ir))
                B.vc(ax + '.point_within_half_cell_of_centre', land(app('<=', d, app('/', res, '2.0')), app('>=', d, neg(app('/', res, '2.0')))), assume + inside)
                # C13: centres map back to their own index
                i = B.int('i_%s_%d' % (tag.replace('.', '_'), a))
                pc_ = centre(app('to_real', i))
                qc = app('/', sub(pc_, origin[a]), res)
                B.vc(ax + '.centre_maps_to_own_index', app('=', app('to_int', qc), i), assume + [app('>=', i, '0'), app('<', i, ncell[a])])
                # C13: centres spaced by exactly the resolution
                B.vc(ax + '.centres_spaced_by_resolution', app('=', sub(centre(app('to_real', add(i, '1'))), centre(app('to_real', i))), res), assume)
                # C13: first and last cells cover the bounds
                B.vc(ax + '.first_cell_covers_lower_bound', app('<=', sub(centre('0.0'), app('/', res, '2.0')), lo[a]), assume)
                B.vc(ax + '.last_cell_covers_upper_bound', app('>=', add(centre(app('to_real', sub(ncell[a], '1'))), app('/', res, '2.0')), hi[a]), assume)
                B.vc(ax + '.at_least_one_cell', app('>=', ncell[a], '1'), assume)
