"""C01 -- ECEF <-> geodetic: exact-arithmetic verification conditions (back end B).
Forward map = the point on the ellipsoid normal through (lat, lon) at height h.  Inverse: longitude = atan2(Y, X), the geodetic latitude is a fixed point of the iteration map, height formula at that fixed point, ranges, domains.
NOT decided here (stated in the evidence): rounding, the 1e-9 rad / 1 mm tolerances, termination and contraction of the loop,
uniqueness of the fixed point (textbook)."""
import sys, os
sys.path.insert(0, os.path.join(os.path.dirname(os.path.dirname(os.path.dirname(os.path.abspath(__file__)))), 'tools'))
from emit_smt import app, land, lor, lnot, implies, add, sub, mul, neg, num


def S(t): return app('f_sin', t)
def C(t): return app('f_cos', t)


def vcs(B):
    B.unit('src/geodesy/ECEFConverter.cpp')
    B.unit('src/geodesy/EarthEllipsoid.cpp')
    B.unit('src/geodesy/GeodeticCoordinates.cpp')
    B.function('ELL__ctor', 'romea::core::EarthEllipsoid', 'EarthEllipsoid', nparams=2)
    B.function('ECEF__toECEF', 'romea::core::ECEFConverter', 'toECEF')
    B.function('ECEF__toWGS84', 'romea::core::ECEFConverter', 'toWGS84')
    B.extract()
    B.loop_handler = B.fixed_point_loop
    B.decls['pi'] = 'Real'
    # ---- ellipsoid constants ------------------------------------------------------------------------------
    A_, B_ = B.real('semi_major'), B.real('semi_minor')
    ell = B.sx.default_value(('struct', 'EarthEllipsoid'))
    B.call('ELL__ctor', ell, A_, B_)
    edom = [app('>', A_, '0.0'), app('>', B_, '0.0'), app('<=', B_, A_)]
    B.domain_vcs('EarthEllipsoid', edom)
    B.vc('EarthEllipsoid.e2_is_first_eccentricity_squared', app('=', mul(ell['e2'], mul(A_, A_)), sub(mul(A_, A_), mul(B_, B_))), edom, functions=['ELL__ctor'])
    B.vc('EarthEllipsoid.e2_in_0_1', land(app('<=', '0.0', ell['e2']), app('<', ell['e2'], '1.0')), edom, functions=['ELL__ctor'])
    B.vc('EarthEllipsoid.e_is_sqrt_e2', land(app('>=', ell['e'], '0.0'), app('=', mul(ell['e'], ell['e']), ell['e2'])), edom, functions=['ELL__ctor'])

    # ---- forward map ----------------------------------------------------------------------------------------
    a, e2 = B.real('a'), B.real('e2')
    conv = {'ellipsoid_': {'a': a, 'b': B.real('b_unused'), 'e2': e2, 'e': B.real('e_unused')}}
    lat, lon, h = B.real('lat'), B.real('lon'), B.real('h')
    dom = [app('>', a, '0.0'), app('<=', '0.0', e2), app('<', e2, '1.0')]
    P = B.call('ECEF__toECEF', conv, B.make('GeodeticCoordinates', latitude=lat, longitude=lon, altitude=h))
    B.domain_vcs('toECEF', dom)
    P0 = B.call('ECEF__toECEF', conv, B.make('GeodeticCoordinates', latitude=lat, longitude=lon, altitude='0.0'))
    B.take_obligations()
    for t in (lat, lon):
        B.libm('sin', [t], 'true'); B.libm('cos', [t], 'true')
    n = [mul(C(lat), C(lon)), mul(C(lat), S(lon)), S(lat)]
    ff = ['ECEF__toECEF']
    for i, nm in enumerate('XYZ'):
        # C01: the point at height h lies on the normal through the foot point, h along the unit normal (cos lat cos lon, cos lat sin lon, sin lat)
        B.vc('toECEF.%s.is_foot_point_plus_h_times_normal' % nm, app('=', P[i], add(P0[i], mul(h, n[i]))), dom, functions=ff)
    # ---- lemmas about the prime-vertical radius, used below through generalisation --------------------------------
    W_code = sub('1.0', mul(mul(e2, S(lat)), S(lat)))          # as written in toECEF:  1 - e2*sin*sin
    w = app('f_sqrt', W_code)
    B.libm('sqrt', [W_code], 'true')
    B.vc('lemma.W_positive', app('>', W_code, '0.0'), dom, functions=ff)
    B.vc('lemma.sqrtW_positive_and_squares_to_W', land(app('>', w, '0.0'), app('=', mul(w, w), sub('1.0', mul(e2, mul(S(lat), S(lat)))))), dom, functions=ff)
    wv = B.real('w_gen')                                         # generalised sqrt(1 - e2 sin^2 lat)
    wfacts = [app('>', wv, '0.0'), app('=', mul(wv, wv), sub('1.0', mul(e2, mul(S(lat), S(lat)))))]
    G1 = [(w, wv)]
    # the foot point lies on the ellipsoid x^2/a^2 + y^2/a^2 + z^2/b^2 = 1 (written without division), b^2 = a^2 (1 - e2)
    b2 = mul(mul(a, a), sub('1.0', e2))
    B.vc('toECEF.foot_point_on_ellipsoid', app('=', add(mul(b2, add(mul(P0[0], P0[0]), mul(P0[1], P0[1]))), mul(mul(a, a), mul(P0[2], P0[2]))), mul(mul(a, a), b2)), dom + wfacts, functions=ff, timeout=120, subst=G1)
    # the ellipsoid normal at the foot point, grad = (x/a^2, y/a^2, z/b^2), is parallel to n (cross product = 0, scaled by a^2 b^2)
    g = [mul(b2, P0[0]), mul(b2, P0[1]), mul(mul(a, a), P0[2])]
    cross = [sub(mul(g[1], n[2]), mul(g[2], n[1])), sub(mul(g[2], n[0]), mul(g[0], n[2])), sub(mul(g[0], n[1]), mul(g[1], n[0]))]
    for i in range(3):
        B.vc('toECEF.ellipsoid_normal_at_foot_point_parallel_to_n[%d]' % i, app('=', cross[i], '0.0'), dom + wfacts, functions=ff, timeout=120, subst=G1)

    # ---- inverse map on a point produced by the forward map -------------------------------------------------------
    B.loop_records.clear()
    G = B.call('ECEF__toWGS84', conv, list(P))
    G = {k: B.get(G, k) for k in ('latitude', 'longitude', 'altitude')}
    rec = B.loop_records[-1]
    L0, L1 = rec['pre']['latitude'], rec['post']['latitude']
    N = app('/', a, w)
    idom = dom + [app('<', '(- (/ pi 2.0))', lat), app('<', lat, '(/ pi 2.0)'), B.axiom('cos_positive_open_half', lat),
                  app('>', add(N, h), '0.0'), app('<', '(- pi)', lon), app('<=', lon, 'pi')]
    fi = ['ECEF__toWGS84', 'ECEF__toECEF']
    B.vc('toWGS84.latitude_in_range', land(app('<', '(- (/ pi 2.0))', G['latitude']), app('<', G['latitude'], '(/ pi 2.0)')), idom, functions=fi)
    B.vc('toWGS84.longitude_in_range', land(app('<', '(- pi)', G['longitude']), app('<=', G['longitude'], 'pi')), idom, functions=fi)
    # distance to the axis: sqrt(X^2 + Y^2) = (N + h) cos lat  (lemma, then generalised to the symbol p_gen)
    pterm = app('f_sqrt', add(mul(P[0], P[0]), mul(P[1], P[1])))
    B.libm('sqrt', [add(mul(P[0], P[0]), mul(P[1], P[1]))], 'true')
    Nv = B.real('N_gen')                                         # generalised prime-vertical radius N = a / w
    nfacts = [app('=', mul(Nv, wv), a), app('>', Nv, '0.0'), app('>', add(Nv, h), '0.0')]
    B.vc('lemma.N_times_sqrtW_is_a', land(app('=', mul(N, w), a), app('>', N, '0.0')), dom + [app('>', w, '0.0')], functions=ff)
    B.vc('lemma.axis_distance_is_N_plus_h_cos_lat', app('=', pterm, mul(add(Nv, h), C(lat))), idom + nfacts + wfacts, functions=fi, timeout=120, subst=[(N, Nv), (w, wv)])
    B.vc('lemma.axis_distance_positive', app('>', mul(add(Nv, h), C(lat)), '0.0'), idom + nfacts, functions=fi, subst=[(N, Nv), (w, wv)])
    pv = B.real('p_gen')
    pfacts = [app('=', pv, mul(add(Nv, h), C(lat))), app('>', pv, '0.0')]
    GEN = [(pterm, pv), (N, Nv), (w, wv)]
    # C01: the recovered longitude is the original one: atan2(Y, X) has the sine and cosine of lon and both lie in (-pi, pi]
    lon_ax = [B.axiom('sincos_injective', G['longitude'], lon)]
    B.vc('toWGS84.longitude_recovered', app('=', G['longitude'], lon), idom + nfacts + wfacts + pfacts + lon_ax, functions=fi, timeout=180, subst=GEN)
    # C01: the geodetic latitude is a fixed point of the iteration map (taking the iterate L0 = lat, one more step returns lat)
    w_loop = app('f_sqrt', sub('1.0', mul(e2, mul(S(L0), S(L0)))))      # as written in the loop: 1 - e2*s2
    loop_facts = [app('=', L0, lat), app('=', w_loop, wv)]
    B.vc('lemma.sqrt_in_loop_is_same_radicand', app('=', app('f_sqrt', sub('1.0', mul(e2, mul(S(lat), S(lat))))), w), dom + [B.congruence('f_sqrt', [sub('1.0', mul(e2, mul(S(lat), S(lat))))], [W_code])], functions=fi)
    B.vc('toWGS84.true_latitude_is_fixed_point_of_iteration', app('=', L1, lat), idom + nfacts + wfacts + pfacts + loop_facts + [B.axiom('tan_injective', L1, lat), lnot(app('=', add(mul(Nv, sub('1.0', e2)), h), '0.0'))], functions=fi, timeout=180, subst=GEN)
    # C01: at that fixed point the height formula returns h
    w_fin = app('f_sqrt', sub('1.0', mul(e2, mul(S(L1), S(L1)))))
    B.vc('lemma.sqrt_at_fixed_point_is_same_radicand', app('=', w_fin, w), dom + [app('=', L1, lat), B.congruence('f_sqrt', [sub('1.0', mul(e2, mul(S(L1), S(L1))))], [W_code]), B.congruence('f_sin', [L1], [lat])], functions=fi)
    B.vc('toWGS84.height_recovered_at_fixed_point', app('=', G['altitude'], h), idom + nfacts + wfacts + pfacts + [app('=', L0, lat), app('=', L1, lat), app('=', w_fin, wv)], functions=fi, timeout=180, subst=GEN)
    # domain obligations of the inverse (divisions, square roots) on the image of the forward map, at the fixed point
    it_dom = idom + nfacts + wfacts + pfacts + loop_facts + [app('=', L1, lat), app('=', w_fin, wv), lnot(app('=', add(mul(Nv, sub('1.0', e2)), h), '0.0')), app('>', add(mul(P[0], P[0]), mul(P[1], P[1])), '0.0')]
    # numeric domain of the property (needed only for the initial guess, whose denominator vanishes at geocentric distance a*e2 ~ 42 km)
    it_dom += [app('>=', a, '6370000.0'), app('<=', a, '6390000.0'), app('<=', e2, '0.007'), app('>=', h, '(- 11000.0)'), app('<=', h, '100000.0'),
               app('>=', Nv, a)]
    B.vc('lemma.N_at_least_a', app('>=', N, a), dom + [app('>', w, '0.0'), app('<=', mul(w, w), '1.0')], functions=ff)
    B.vc('lemma.sqrtW_squared_at_most_one', app('<=', mul(w, w), '1.0'), dom, functions=ff)
    # geocentric distance rho = sqrt(X^2+Y^2+Z^2) exceeds a*e2 on the property's domain (lemma chain, then generalised to rho_gen)
    R2 = add(add(mul(P[0], P[0]), mul(P[1], P[1])), mul(P[2], P[2]))
    rho = app('f_sqrt', R2)
    B.libm('sqrt', [R2], 'true')
    q = add(mul(Nv, sub('1.0', e2)), h)
    num_dom = [app('>=', a, '6370000.0'), app('<=', a, '6390000.0'), app('<=', e2, '0.007'), app('>=', h, '(- 11000.0)'), app('<=', h, '100000.0'), app('>=', Nv, a)]
    B.vc('lemma.q_exceeds_a_e2', app('>', q, mul(a, e2)), dom + num_dom, functions=fi)
    sc = [app('=', add(mul(S(lat), S(lat)), mul(C(lat), C(lat))), '1.0'), app('=', add(mul(S(lon), S(lon)), mul(C(lon), C(lon))), '1.0')]
    R2g = add(mul(mul(add(Nv, h), C(lat)), mul(add(Nv, h), C(lat))), mul(mul(q, S(lat)), mul(q, S(lat))))
    B.vc('lemma.R2_is_axis_distance_squared_plus_Z_squared', app('=', R2, R2g), dom + sc, functions=fi, subst=[(N, Nv), (w, wv)], timeout=120)
    B.vc('lemma.R2_at_least_q_squared', app('>=', R2g, mul(q, q)), dom + sc + num_dom + [app('>', q, '0.0')], functions=fi, timeout=120)
    rv = B.real('rho_gen')
    rfacts = [app('>', rv, mul(a, e2)), app('>', rv, '0.0')]
    B.vc('lemma.rho_exceeds_a_e2', app('>', rho, mul(a, e2)), dom + num_dom + [app('>=', R2, mul(q, q)), app('>', q, mul(a, e2)), app('>', q, '0.0')], functions=fi, timeout=120)
    GEN2 = [(rho, rv)] + GEN
    obl = B.take_obligations()
    seen = set(); k = 0
    for kind, cond, pc in obl:
        if (kind, cond, pc) in seen: continue
        seen.add((kind, cond, pc)); k += 1
        B.vc('toWGS84.domain.%s.%d' % (kind, k), implies(pc, cond), it_dom + rfacts, functions=fi, timeout=120, subst=GEN2)
