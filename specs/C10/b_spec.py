"""C10 -- angle / rotation / coordinate parametrisations (back end B, exact arithmetic, libm axiom instances).
'Equal modulo 2*pi' is stated as equal sine and cosine (two angles have the same sine and cosine iff they differ by a multiple of 2*pi)."""
import sys, os
sys.path.insert(0, os.path.join(os.path.dirname(os.path.dirname(os.path.dirname(os.path.abspath(__file__)))), 'tools'))
from emit_smt import app, land, lor, lnot, implies, add, sub, mul, neg, num
import symalg

PI2 = '(* 2.0 pi)'


def S(t): return app('f_sin', t)
def C(t): return app('f_cos', t)


def same_angle(a, b):
    return land(app('=', S(a), S(b)), app('=', C(a), C(b)))


def trunc_q(v):   # the integer the code's fmod subtracts: trunc(v / 2pi)
    q = app('/', v, PI2)
    return app('ite', app('>=', q, '0.0'), app('to_int', q), app('-', app('to_int', app('-', q))))


def make_norm_axioms(B):
    # sin/cos of a normalised angle equal those of the angle (periodicity instances for the possible shifts)
    def norm_axioms(a):
        t = trunc_q(a)
        return [B.axiom('periodic_2pi', a, neg(t)), B.axiom('periodic_2pi', a, neg(sub(t, '1'))), B.axiom('periodic_2pi', a, neg(add(t, '1')))]
    return norm_axioms


def vcs(B):
    B.unit('inst/euler.cpp')
    B.unit('src/transform/SmartRotation3D.cpp')
    for nm in ['between0And2Pi', 'betweenMinusPiAndPi', 'rotation2DToEulerAngle', 'eulerAngleToRotation2D', 'rotation3DToEulerAngles', 'toPolar', 'toSpherical']:
        B.function(nm, '', nm)
    B.function('toCartesian2', '', 'toCartesian', sig='PolarCoordinates')
    B.function('toCartesian3', '', 'toCartesian', sig='SphericalCoordinates')
    B.function('SR__ctor0', 'romea::core::SmartRotation3D', 'SmartRotation3D', nparams=0)
    B.function('SR__init3', 'romea::core::SmartRotation3D', 'init', nparams=3)
    B.extract()
    B.decls['pi'] = 'Real'

    # ---- normalisers ------------------------------------------------------------------------------
    v = B.real('v')
    dom = [app('<', app('-', app('*', '4.0', 'pi')), v), app('<', v, app('*', '4.0', 'pi'))]
    r = B.call('between0And2Pi', v)
    B.domain_vcs('between0And2Pi', dom)
    B.vc('between0And2Pi.in_0_2pi', land(app('<=', '0.0', r), app('<=', r, PI2)), dom, functions=['between0And2Pi'])
    k = B.int('k_norm')
    B.vc('between0And2Pi.congruent_mod_2pi', lor(app('=', r, sub(v, mul(PI2, app('to_real', trunc_q(v))))), app('=', r, sub(v, mul(PI2, app('to_real', sub(trunc_q(v), '1')))))), dom, functions=['between0And2Pi'])
    r2 = B.call('betweenMinusPiAndPi', v)
    B.domain_vcs('betweenMinusPiAndPi', dom)
    B.vc('betweenMinusPiAndPi.in_minus_pi_pi', land(app('<=', '(- pi)', r2), app('<=', r2, 'pi')), dom, functions=['betweenMinusPiAndPi'])
    B.vc('betweenMinusPiAndPi.congruent_mod_2pi', lor(*[app('=', r2, sub(v, mul(PI2, app('to_real', add(trunc_q(v), str(d)) if d >= 0 else sub(trunc_q(v), str(-d)))))) for d in (-1, 0, 1)]), dom, functions=['betweenMinusPiAndPi'])

    norm_axioms = make_norm_axioms(B)

    # ---- planar pair ---------------------------------------------------------------------------------
    th = B.real('theta')
    M = B.call('eulerAngleToRotation2D', th)
    B.vc('eulerAngleToRotation2D.is_rotation_matrix', land(app('=', M[0], C(th)), app('=', M[1], neg(S(th))), app('=', M[2], S(th)), app('=', M[3], C(th))), functions=['eulerAngleToRotation2D'])
    B.libm('sin', [th], 'true'); B.libm('cos', [th], 'true')
    B.vc('eulerAngleToRotation2D.proper_rotation', land(app('=', sub(mul(M[0], M[3]), mul(M[1], M[2])), '1.0'), app('=', add(mul(M[0], M[0]), mul(M[2], M[2])), '1.0'), app('=', add(mul(M[0], M[1]), mul(M[2], M[3])), '0.0')), functions=['eulerAngleToRotation2D'])
    ang = B.call('rotation2DToEulerAngle', list(M))
    B.take_obligations()
    a_raw = app('f_atan2', sub(M[2], M[1]), add(M[0], M[3]))
    B.vc('rotation2D.angle_to_matrix_to_angle', same_angle(ang, th), norm_axioms(a_raw), functions=['eulerAngleToRotation2D', 'rotation2DToEulerAngle', 'between0And2Pi'], timeout=120)
    c, s = B.real('rc'), B.real('rs')
    Min = [c, neg(s), s, c]
    isrot = [app('=', add(mul(c, c), mul(s, s)), '1.0')]
    ang2 = B.call('rotation2DToEulerAngle', list(Min))
    B.take_obligations()
    M2 = B.call('eulerAngleToRotation2D', ang2)
    a_raw2 = app('f_atan2', sub(Min[2], Min[1]), add(Min[0], Min[3]))
    for i in range(4):
        B.vc('rotation2D.matrix_to_angle_to_matrix[%d]' % i, app('=', M2[i], Min[i]), isrot + norm_axioms(a_raw2), functions=['eulerAngleToRotation2D', 'rotation2DToEulerAngle', 'between0And2Pi'], timeout=120)

    # ---- SmartRotation3D: proper rotation, equal to Rz*Ry*Rx ---------------------------------------------
    ax, ay, az = B.real('roll'), B.real('pitch'), B.real('yaw')
    # the default constructor establishes the representation invariant, init() is specified from ANY state satisfying it (so that
    # re-initialising a used object is covered) and re-establishes it
    fresh = B.sx.default_value(('struct', 'SmartRotation3D'))
    B.call('SR__ctor0', fresh)
    symalg.smart_rotation_invariant_vcs(B, fresh, 'SmartRotation3D.default_constructor', ['SR__ctor0'])
    rot = symalg.smart_rotation_prior_state(B)
    B.call('SR__init3', rot, ax, ay, az)
    B.take_obligations()
    symalg.smart_rotation_invariant_vcs(B, rot, 'SmartRotation3D.init', ['SR__init3'])
    env = {'sx': S(ax), 'cx': C(ax), 'sy': S(ay), 'cy': C(ay), 'sz': S(az), 'cz': C(az)}
    for a in (ax, ay, az):
        B.libm('sin', [a], 'true'); B.libm('cos', [a], 'true')
    Rspec = symalg.rot_zyx()
    R = rot['R_']
    fr = ['SR__ctor0', 'SR__init3']
    for i in range(3):
        for j in range(3):
            B.vc('SmartRotation3D.R[%d,%d].is_RzRyRx' % (i, j), app('=', R[3 * i + j], Rspec[i][j].smt(env)), functions=fr)
            dot = None
            for k in range(3):
                t = mul(R[3 * k + i], R[3 * k + j])
                dot = t if dot is None else add(dot, t)
            B.vc('SmartRotation3D.RtR[%d,%d].orthonormal' % (i, j), app('=', dot, '1.0' if i == j else '0.0'), functions=fr, timeout=120)
    det = add(sub(mul(R[0], sub(mul(R[4], R[8]), mul(R[5], R[7]))), mul(R[1], sub(mul(R[3], R[8]), mul(R[5], R[6])))), mul(R[2], sub(mul(R[3], R[7]), mul(R[4], R[6]))))
    B.vc('SmartRotation3D.det_is_one', app('=', det, '1.0'), functions=fr, timeout=120)

    # ---- angles -> rotation -> angles (|pitch| < pi/2) ----------------------------------------------------
    Rm = [Rspec[i][j].smt(env) for i in range(3) for j in range(3)]
    e = B.call('rotation3DToEulerAngles', list(Rm))
    B.take_obligations()
    # the property's quantifier: |pitch| <= pi/2 - 1e-3
    gl = [app('<=', '(- (- (/ pi 2.0) 0.001))', ay), app('<=', ay, '(- (/ pi 2.0) 0.001)'), B.axiom('cos_positive_open_half', ay), B.axiom('away_from_half_pi', ay)]
    raw_roll = app('f_atan2', Rm[7], Rm[8])
    raw_pitch = neg(app('f_asin', Rm[6]))
    raw_yaw = app('f_atan2', Rm[3], Rm[0])
    fe = ['rotation3DToEulerAngles', 'between0And2Pi']
    B.vc('euler.angles_to_R_to_angles.pitch', same_angle(e[1], ay), gl + norm_axioms(raw_pitch) + [B.axiom('sin_injective_half', app('f_asin', Rm[6]), neg(ay)), B.axiom('sin_neg', ay), B.axiom('sin_neg', app('f_asin', Rm[6]))], functions=fe, timeout=120)
    B.vc('euler.angles_to_R_to_angles.roll', same_angle(e[0], ax), gl + norm_axioms(raw_roll), functions=fe, timeout=120)
    B.vc('euler.angles_to_R_to_angles.yaw', same_angle(e[2], az), gl + norm_axioms(raw_yaw), functions=fe, timeout=120)

    # ---- polar <-> cartesian ---------------------------------------------------------------------------------
    x, y = B.real('px'), B.real('py')
    pol = B.call('toPolar', [x, y])
    B.take_obligations()
    back = B.call('toCartesian2', pol)
    nz = [lnot(land(app('=', x, '0.0'), app('=', y, '0.0')))]
    fp = ['toPolar', 'toCartesian2']
    B.vc('polar.cartesian_to_polar_to_cartesian.x', app('=', back[0], x), nz, functions=fp)
    B.vc('polar.cartesian_to_polar_to_cartesian.y', app('=', back[1], y), nz, functions=fp)
    rr, tt = B.real('prange'), B.real('pazimut')
    car = B.call('toCartesian2', {'range_': rr, 'azimut_': tt})
    pol2 = B.call('toPolar', list(car))
    B.take_obligations()
    dom2 = [app('>', rr, '0.0'), app('<', '(- pi)', tt), app('<=', tt, 'pi')]
    B.libm('sin', [tt], 'true'); B.libm('cos', [tt], 'true')
    B.vc('polar.polar_to_cartesian_to_polar.range', app('=', pol2['range_'], rr), dom2, functions=fp)
    B.vc('polar.polar_to_cartesian_to_polar.azimut', app('=', pol2['azimut_'], tt), dom2 + [B.axiom('sincos_injective', pol2['azimut_'], tt)], functions=fp, timeout=120)

    # ---- spherical <-> cartesian -----------------------------------------------------------------------------
    x3 = B.vec('q', 3)
    sph = B.call('toSpherical', list(x3))
    nz3 = [lnot(land(app('=', x3[0], '0.0'), app('=', x3[1], '0.0'), app('=', x3[2], '0.0')))]
    B.domain_vcs('toSpherical', nz3)
    back3 = B.call('toCartesian3', sph)
    fs = ['toSpherical', 'toCartesian3']
    for i, nm in enumerate('xyz'):
        B.vc('spherical.cartesian_to_spherical_to_cartesian.' + nm, app('=', back3[i], x3[i]), nz3, functions=fs, timeout=120)
    B.take_obligations()
    matrix_route(B, norm_axioms)
    quaternion_route(B)


def matrix_route(B, norm_axioms, pre='', bound='0.999999'):
    """'converting any rotation to angles and back returns the same rotation': for every proper rotation matrix R with |R(2,0)| < 1,
    Rz*Ry*Rx of rotation3DToEulerAngles(R) is R.  (eulerAnglesToRotation3D and SmartRotation3D are each proved to return Rz*Ry*Rx of
    their angles for ALL angles, so this closes R -> angles -> R for both.)  Three kinds of VC: what the sine and cosine of each
    returned angle are in terms of R (lemmas, libm axiom instances), then the nine entries as polynomial identities over symbols
    standing for those sines and cosines, modulo orthonormality and det = 1."""
    Rin = B.vec('Rin', 9)
    r = lambda i, j: Rin[3 * i + j]
    e = B.call('rotation3DToEulerAngles', list(Rin))
    B.take_obligations()
    fe = ['rotation3DToEulerAngles', 'between0And2Pi']

    def dot(a, b):
        acc = None
        for x, y in zip(a, b):
            acc = mul(x, y) if acc is None else add(acc, mul(x, y))
        return acc
    col = lambda j: [r(0, j), r(1, j), r(2, j)]
    row = lambda i: [r(i, 0), r(i, 1), r(i, 2)]
    orth = []
    for i in range(3):
        for j in range(i, 3):
            orth.append(app('=', dot(col(i), col(j)), '1.0' if i == j else '0.0'))
            orth.append(app('=', dot(row(i), row(j)), '1.0' if i == j else '0.0'))
    det = add(sub(mul(r(0, 0), sub(mul(r(1, 1), r(2, 2)), mul(r(1, 2), r(2, 1)))), mul(r(0, 1), sub(mul(r(1, 0), r(2, 2)), mul(r(1, 2), r(2, 0))))),
              mul(r(0, 2), sub(mul(r(1, 0), r(2, 1)), mul(r(1, 1), r(2, 0)))))
    orth.append(app('=', det, '1.0'))
    # the property's quantifier: |R(2,0)| <= 1 - 1e-6 (C10); C11 passes its own bound (attitude 1e-3 rad away from gimbal lock)
    dom = [app('<=', '(- %s)' % bound, r(2, 0)), app('<=', r(2, 0), bound)]
    raw = [app('f_atan2', r(2, 1), r(2, 2)), neg(app('f_asin', r(2, 0))), app('f_atan2', r(1, 0), r(0, 0))]
    names = ('roll', 'pitch', 'yaw')
    # (1) the normaliser keeps sine and cosine
    for k in range(3):
        B.vc(pre + 'lemma.R_to_angles.%s_is_the_raw_angle_mod_2pi' % names[k], same_angle(e[k], raw[k]), dom + norm_axioms(raw[k]), functions=fe, timeout=120)
    # (2) sine and cosine of the raw angles in terms of R; rho = sqrt(1 - R20^2) appears as the atan2 radius of (R22, R21) and of (R00, R10)
    one_m = sub('1.0', mul(r(2, 0), r(2, 0)))
    rho_x = app('f_sqrt', add(mul(r(2, 2), r(2, 2)), mul(r(2, 1), r(2, 1))))
    rho_z = app('f_sqrt', add(mul(r(0, 0), r(0, 0)), mul(r(1, 0), r(1, 0))))
    B.vc(pre + 'lemma.R_to_angles.roll_sine_cosine', land(app('=', mul(S(raw[0]), rho_x), r(2, 1)), app('=', mul(C(raw[0]), rho_x), r(2, 2)), app('>', rho_x, '0.0'), app('=', mul(rho_x, rho_x), one_m)),
         dom + orth, functions=fe, timeout=120)
    B.vc(pre + 'lemma.R_to_angles.yaw_sine_cosine', land(app('=', mul(S(raw[2]), rho_z), r(1, 0)), app('=', mul(C(raw[2]), rho_z), r(0, 0)), app('>', rho_z, '0.0'), app('=', mul(rho_z, rho_z), one_m)),
         dom + orth, functions=fe, timeout=120)
    B.vc(pre + 'lemma.R_to_angles.radii_agree', app('=', rho_x, rho_z), dom + orth + [app('>', rho_x, '0.0'), app('=', mul(rho_x, rho_x), one_m), app('>', rho_z, '0.0'), app('=', mul(rho_z, rho_z), one_m)], functions=fe, timeout=120)
    asn = app('f_asin', r(2, 0))
    B.vc(pre + 'lemma.R_to_angles.pitch_sine_cosine', land(app('=', S(raw[1]), neg(r(2, 0))), app('=', C(raw[1]), rho_x)),
         dom + orth + [B.axiom('sin_neg', asn), app('>', rho_x, '0.0'), app('=', mul(rho_x, rho_x), one_m)], functions=fe, timeout=120)
    # (3) the nine entries over symbols: sx rho = R21, cx rho = R22, sy = -R20, cy = rho, sz rho = R10, cz rho = R00, rho > 0, rho^2 = 1 - R20^2
    g = {k: B.real('g_' + k) for k in ('sx', 'cx', 'sy', 'cy', 'sz', 'cz', 'rho', 'inv_rho')}
    gfacts = dom + orth + [app('=', mul(g['sx'], g['rho']), r(2, 1)), app('=', mul(g['cx'], g['rho']), r(2, 2)), app('=', g['sy'], neg(r(2, 0))), app('=', g['cy'], g['rho']),
                           app('=', mul(g['sz'], g['rho']), r(1, 0)), app('=', mul(g['cz'], g['rho']), r(0, 0)), app('>', g['rho'], '0.0'), app('=', mul(g['rho'], g['rho']), one_m),
                           app('=', g['inv_rho'], app('/', '1.0', g['rho']))]      # a definition (rho > 0), lets the algebraic member cancel rho
    env = {'sx': S(e[0]), 'cx': C(e[0]), 'sy': S(e[1]), 'cy': C(e[1]), 'sz': S(e[2]), 'cz': C(e[2])}
    gen = [(env[k], g[k]) for k in ('sx', 'cx', 'sy', 'cy', 'sz', 'cz')]
    Rt = symalg.rot_zyx()
    for i in range(3):
        for j in range(3):
            B.vc(pre + 'R_to_angles_to_R[%d,%d].RzRyRx_of_the_returned_angles_is_R' % (i, j), app('=', Rt[i][j].smt(env), r(i, j)), gfacts, functions=fe, timeout=120, subst=gen)


def quaternion_route(B):
    """eulerAnglesToQuaternion / eulerAnglesToRotation3D / quaternionToEulerAngles through the assumed contracts of Eigen/Geometry
    (AngleAxis -> quaternion, Hamilton product, toRotationMatrix as Eigen writes it, normalized() = q / |q|)."""
    for nm in ['eulerAnglesToQuaternion', 'eulerAnglesToRotation3D', 'quaternionToEulerAngles']:
        B.function(nm, '', nm)
    B.extract()
    ang = [B.real('q_roll'), B.real('q_pitch'), B.real('q_yaw')]
    q = B.call('eulerAnglesToQuaternion', list(ang))
    Rq = B.call('eulerAnglesToRotation3D', list(ang))
    B.take_obligations()
    fq = ['eulerAnglesToQuaternion', 'eulerAnglesToRotation3D']
    # the argument of sin/cos the code uses for each angle (the half angle, as the extraction prints it); that it IS the half angle is
    # the guard 2h = a of the double-angle instances below
    half = []
    for a in ang:
        cands = [symalg.sshow(symalg.sparse(t)[1]) for t in symalg_sub(' '.join(q) if False else '(+ ' + ' '.join(q) + ')', 'f_sin') if a in t]
        cands = list(dict.fromkeys(cands))
        if len(cands) != 1:
            from front import ExtractError
            raise ExtractError('C10 spec: eulerAnglesToQuaternion: expected one sine argument per angle, got %r' % (cands,))
        half.append(cands[0])
    for t in ang + half:
        B.libm('sin', [t], 'true'); B.libm('cos', [t], 'true')
    # half-angle facts (instances of the double-angle schema, guard 2*(a/2) = a), proved once and then used as polynomial hypotheses
    hfacts = []
    for a, h, nm in zip(ang, half, ('roll', 'pitch', 'yaw')):
        f = land(app('=', S(a), mul('2.0', mul(S(h), C(h)))), app('=', C(a), sub(mul(C(h), C(h)), mul(S(h), S(h)))))
        B.vc('lemma.double_angle_of_half_%s' % nm, f, [B.axiom('sin_half', a, h)], functions=fq)
        hfacts += [app('=', S(a), mul('2.0', mul(S(h), C(h)))), app('=', C(a), sub(mul(C(h), C(h)), mul(S(h), S(h))))]
    # C10: the quaternion built from the angles is a unit quaternion ...
    n2 = add(add(add(mul(q[0], q[0]), mul(q[1], q[1])), mul(q[2], q[2])), mul(q[3], q[3]))
    B.vc('eulerAnglesToQuaternion.is_unit_quaternion', app('=', n2, '1.0'), [], functions=fq, timeout=120)
    # ... and describes the same rotation as the textbook Rz*Ry*Rx (the matrix SmartRotation3D is proved to report)
    env = {'sx': S(ang[0]), 'cx': C(ang[0]), 'sy': S(ang[1]), 'cy': C(ang[1]), 'sz': S(ang[2]), 'cz': C(ang[2])}
    Rt = symalg.rot_zyx()
    for i in range(3):
        for j in range(3):
            B.vc('eulerAnglesToRotation3D[%d,%d].is_RzRyRx' % (i, j), app('=', Rq[3 * i + j], Rt[i][j].smt(env)), hfacts, functions=fq, timeout=120)
    # quaternionToEulerAngles: the matrix handed to rotation3DToEulerAngles is that of q / |q|, hence invariant under q -> k q (k != 0),
    # and for the unit quaternion of a triple of angles it is Rz*Ry*Rx of those angles (then 'angles -> R -> angles' above applies)
    qs = B.vec('qq', 4)        # Eigen coefficient order x, y, z, w
    kk = B.real('q_scale')
    e1 = B.call('quaternionToEulerAngles', list(qs))
    e2 = B.call('quaternionToEulerAngles', [mul(kk, c) for c in qs])
    B.take_obligations()
    fqe = ['quaternionToEulerAngles', 'rotation3DToEulerAngles', 'between0And2Pi']
    nq = add(add(add(mul(qs[0], qs[0]), mul(qs[1], qs[1])), mul(qs[2], qs[2])), mul(qs[3], qs[3]))
    sq1 = [t for t in symalg_sub(e1[0], 'f_sqrt')]
    sq2 = [t for t in symalg_sub(e2[0], 'f_sqrt')]
    if len(sq1) > 1 or len(sq2) > 1 or len(sq1) != len(sq2):
        from front import ExtractError
        raise ExtractError('C10 spec: quaternionToEulerAngles: unexpected square roots')
    dq = [app('>', nq, '0.0'), lnot(app('=', kk, '0.0'))]
    gen, gfacts = [], list(dq)
    if sq1:
        # the code normalises with one square root: |q| > 0, |q|^2 = q.q (lemmas), then generalised to symbols
        n1g, n2g = B.real('norm_q_gen'), B.real('norm_kq_gen')
        B.vc('lemma.norm_of_q_positive', land(app('>', sq1[0], '0.0'), app('=', mul(sq1[0], sq1[0]), nq)), dq, functions=fqe)
        B.vc('lemma.norm_of_scaled_q', land(app('>', sq2[0], '0.0'), app('=', mul(sq2[0], sq2[0]), mul(mul(kk, kk), nq))), dq, functions=fqe, timeout=120)
        gen = [(sq2[0], n2g), (sq1[0], n1g)]
        gfacts = dq + [app('>', n1g, '0.0'), app('=', mul(n1g, n1g), nq), app('>', n2g, '0.0'), app('=', mul(n2g, n2g), mul(mul(kk, kk), nq))]
    # the angles are functions (atan2, asin, normaliser) of five entries of the matrix of q/|q|: equal entries give equal angles
    # (congruence).  The entries are read off the result terms: arguments of atan2 (roll: M21, M22; yaw: M10, M00) and of asin (pitch: M20)
    def entries(e):
        out = []
        for i, head in ((0, 'f_atan2'), (1, 'f_asin'), (2, 'f_atan2')):
            ts = symalg_sub(e[i], head)
            if len(ts) != 1:
                from front import ExtractError
                raise ExtractError('C10 spec: rotation3DToEulerAngles: expected one %s in angle %d' % (head, i))
            out += [symalg.sshow(x) for x in symalg.sparse(ts[0])[1:]]
        return out
    m1, m2 = entries(e1), entries(e2)
    for nm, x1, x2 in zip(('M21', 'M22', 'M20', 'M10', 'M00'), m1, m2):
        B.vc('quaternionToEulerAngles.invariant_under_scaling_of_the_quaternion.' + nm, app('=', x2, x1), gfacts, functions=fqe, timeout=120, subst=gen)


def symalg_sub(term, head):
    out = []

    def walk(t):
        if isinstance(t, list):
            if t and t[0] == head:
                out.append(symalg.sshow(t))
            for x in t[1:]:
                walk(x)
    walk(symalg.sparse(term))
    return list(dict.fromkeys(out))
