"""C12 -- derivative matrices of SmartRotation3D against the formal derivative of the reported rotation (back end B)."""
import sys, os
sys.path.insert(0, os.path.join(os.path.dirname(os.path.dirname(os.path.dirname(os.path.abspath(__file__)))), 'tools'))
from emit_smt import app, land, num
import symalg


def vcs(B):
    B.unit('src/transform/SmartRotation3D.cpp')
    P = 'romea::core::SmartRotation3D'
    B.function('SR__ctor0', P, 'SmartRotation3D', nparams=0)
    B.function('SR__init3', P, 'init', nparams=3)
    B.function('SR__dRTdAngles', P, 'dRTdAngles')
    B.extract()
    ax, ay, az = B.real('roll'), B.real('pitch'), B.real('yaw')
    rot = B.sx.default_value(('struct', 'SmartRotation3D'))
    B.call('SR__ctor0', rot)
    B.call('SR__init3', rot, ax, ay, az)
    B.take_obligations()
    env = {'sx': app('f_sin', ax), 'cx': app('f_cos', ax), 'sy': app('f_sin', ay), 'cy': app('f_cos', ay), 'sz': app('f_sin', az), 'cz': app('f_cos', az)}
    for a in (ax, ay, az):
        B.libm('sin', [a], 'true'); B.libm('cos', [a], 'true')
    R = symalg.rot_zyx()
    fns = ['SR__ctor0', 'SR__init3']
    # the reported rotation is the textbook Rz*Ry*Rx (also used by C10); the derivative matrices are its formal derivatives
    for i in range(3):
        for j in range(3):
            B.vc('R[%d,%d].is_RzRyRx' % (i, j), app('=', rot['R_'][3 * i + j], R[i][j].smt(env)), functions=fns)
    for axis, member in (('x', 'dRdAngleX_'), ('y', 'dRdAngleY_'), ('z', 'dRdAngleZ_')):
        for i in range(3):
            for j in range(3):
                spec = R[i][j].d(symalg.DRULES[axis])
                B.vc('dRd%s[%d,%d].is_derivative_of_R' % (axis.upper(), i, j), app('=', rot[member][3 * i + j], spec.smt(env)), functions=fns)
    # dRTdAngles(T): column a = (dR/d angle_a) * T, with the matrices the object reports
    T = B.vec('T', 3)
    M = B.call('SR__dRTdAngles', rot, list(T))
    for a, member in enumerate(('dRdAngleX_', 'dRdAngleY_', 'dRdAngleZ_')):
        for i in range(3):
            want = None
            for j in range(3):
                t = app('*', rot[member][3 * i + j], T[j])
                want = t if want is None else app('+', want, t)
            B.vc('dRTdAngles[%d,%d].is_dRdAngle_times_T' % (i, a), app('=', M[3 * i + a], want), functions=['SR__dRTdAngles'])
