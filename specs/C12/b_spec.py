"""C12 -- derivative matrices of SmartRotation3D against the formal derivative of the reported rotation (back end B)."""
import sys, os
sys.path.insert(0, os.path.join(os.path.dirname(os.path.dirname(os.path.dirname(os.path.abspath(__file__)))), 'tools'))
from emit_smt import app, land, num, add, sub, mul
import symalg


def vcs(B):
    B.unit('src/transform/SmartRotation3D.cpp')
    P = 'romea::core::SmartRotation3D'
    B.function('SR__ctor0', P, 'SmartRotation3D', nparams=0)
    B.function('SR__init3', P, 'init', nparams=3)
    B.function('SR__dRTdAngles', P, 'dRTdAngles')
    B.extract()
    ax, ay, az = B.real('roll'), B.real('pitch'), B.real('yaw')
    # the default constructor establishes the representation invariant, init() is specified from ANY state satisfying it (so that
    # re-initialising a used object is covered) and re-establishes it
    fresh = B.sx.default_value(('struct', 'SmartRotation3D'))
    B.call('SR__ctor0', fresh)
    symalg.smart_rotation_invariant_vcs(B, fresh, 'SmartRotation3D.default_constructor', ['SR__ctor0'])
    rot = symalg.smart_rotation_prior_state(B)
    B.call('SR__init3', rot, ax, ay, az)
    B.take_obligations()
    symalg.smart_rotation_invariant_vcs(B, rot, 'SmartRotation3D.init', ['SR__init3'])
    env = {'sx': app('f_sin', ax), 'cx': app('f_cos', ax), 'sy': app('f_sin', ay), 'cy': app('f_cos', ay), 'sz': app('f_sin', az), 'cz': app('f_cos', az)}
    for a in (ax, ay, az):
        B.libm('sin', [a], 'true'); B.libm('cos', [a], 'true')
    R = symalg.rot_zyx()
    fns = ['SR__ctor0', 'SR__init3']
    # the reported rotation is the textbook Rz*Ry*Rx (also used by C10); the derivative matrices are its formal derivatives
    for i in range(3):
        for j in range(3):
            B.vc('R[%d,%d].is_RzRyRx' % (i, j), app('=', rot['R_'][3 * i + j], R[i][j].smt(env)), functions=fns)
    for axis, member in (('x', 'dRdAngleX_'), ('y', 'dRdAngleY_'), ('z', 'dRdAngleZ_')):
        for i in range(3):
            for j in range(3):
                spec = R[i][j].d(symalg.DRULES[axis])
                B.vc('dRd%s[%d,%d].is_derivative_of_R' % (axis.upper(), i, j), app('=', rot[member][3 * i + j], spec.smt(env)), functions=fns)
    # dRTdAngles(T): column a = (dR/d angle_a) * T, with the matrices the object reports
    T = B.vec('T', 3)
    M = B.call('SR__dRTdAngles', rot, list(T))
    for a, member in enumerate(('dRdAngleX_', 'dRdAngleY_', 'dRdAngleZ_')):
        for i in range(3):
            want = None
            for j in range(3):
                t = app('*', rot[member][3 * i + j], T[j])
                want = t if want is None else app('+', want, t)
            B.vc('dRTdAngles[%d,%d].is_dRdAngle_times_T' % (i, a), app('=', M[3 * i + a], want), functions=['SR__dRTdAngles'])
    B.take_obligations()
    pose_jacobian(B)
    least_squares(B)


def pose_jacobian(B):
    """operator*(Affine3d, Pose3D): the local 6x6 matrix J of the code against the Jacobian of the library's own pose map
    (p, angles) -> (R p + T, rotation3DToEulerAngles(R * Rzyx(angles))), and covariance' = J cov J^T."""
    from emit_smt import add, sub, mul, neg, lnot, implies
    B.unit('src/geometry/Pose3D.cpp')
    B.unit('inst/euler.cpp')
    B.function('pose_transform', '', 'operator*')
    B.extract()
    # every rigid transform: the linear part ranges over all rotations, written Rz(t_yaw) Ry(t_pitch) Rx(t_roll) (a surjective
    # parametrisation of SO(3)), so that every refutation is a refutation inside the property's quantifier
    tang = [B.real('t_roll'), B.real('t_pitch'), B.real('t_yaw')]
    for a in tang:
        B.libm('sin', [a], 'true'); B.libm('cos', [a], 'true')
    tenv = {'sx': app('f_sin', tang[0]), 'cx': app('f_cos', tang[0]), 'sy': app('f_sin', tang[1]), 'cy': app('f_cos', tang[1]), 'sz': app('f_sin', tang[2]), 'cz': app('f_cos', tang[2])}
    Rsym = symalg.rot_zyx()
    R = [[Rsym[i][j].smt(tenv) for j in range(3)] for i in range(3)]
    T = B.vec('AT', 3)
    aff = [R[0][0], R[0][1], R[0][2], T[0], R[1][0], R[1][1], R[1][2], T[1], R[2][0], R[2][1], R[2][2], T[2], '0.0', '0.0', '0.0', '1.0']
    p = B.vec('pp', 3)
    ang = [B.real('roll'), B.real('pitch'), B.real('yaw')]
    cov = B.vec('cov', 36)
    res = B.call('pose_transform', list(aff), B.make('Pose3D', position=list(p), orientation=list(ang), covariance=list(cov)))
    env = dict(B.last_env)
    B.take_obligations()
    J, M = env.get('J'), env.get('rotation')
    if not (isinstance(J, list) and len(J) == 36 and isinstance(M, list) and len(M) == 9):
        from front import ExtractError
        raise ExtractError('C12 spec: operator*(Affine3d, Pose3D) no longer has the locals J (6x6) and rotation (3x3)')
    fp = ['pose_transform']
    for a in ang:
        B.libm('sin', [a], 'true'); B.libm('cos', [a], 'true')
    # covariance' = J cov J^T with the code's own J (entries generalised to symbols: a polynomial identity)
    Jg = [B.real('Jg_%d_%d' % (i // 6, i % 6)) for i in range(36)]
    gen = [(J[i], Jg[i]) for i in range(36) if J[i] not in ('0.0', '1.0')]
    Jv = [Jg[i] if J[i] not in ('0.0', '1.0') else J[i] for i in range(36)]
    rc = B.get(res, 'covariance')
    for i in range(6):
        for j in range(6):        # all 36 entries: the code may compute the blocks separately, symmetry of the result is not assumed
            acc = None
            for k in range(6):
                for l in range(6):
                    if Jv[6 * i + k] == '0.0' or Jv[6 * j + l] == '0.0':
                        continue
                    t = mul(mul(Jv[6 * i + k], cov[6 * k + l]), Jv[6 * j + l])
                    acc = t if acc is None else add(acc, t)
            B.vc('pose_transform.covariance[%d,%d].is_J_cov_Jt' % (i, j), app('=', rc[6 * i + j], acc or '0.0'), functions=fp, subst=gen)
    # the Jacobian of the library's own map
    dM = [[symalg.sdiff(M[k], a) for a in ang] for k in range(9)]     # dM[3*r+c][angle]
    m = lambda r, c: M[3 * r + c]
    d = lambda r, c, k: dM[3 * r + c][k]
    den_x = add(mul(m(2, 1), m(2, 1)), mul(m(2, 2), m(2, 2)))
    den_z = add(mul(m(0, 0), m(0, 0)), mul(m(1, 0), m(1, 0)))
    one_m = sub('1.0', mul(m(2, 0), m(2, 0)))
    dom = [app('>', den_x, '0.0'), app('>', den_z, '0.0'), app('>', one_m, '0.0')]
    for i in range(3):
        for j in range(3):
            B.vc('pose_transform.J[%d,%d].is_d_position_d_position' % (i, j), app('=', J[6 * i + j], R[i][j]), dom, functions=fp, timeout=20)
            B.vc('pose_transform.J[%d,%d].is_zero_position_does_not_depend_on_attitude' % (i, 3 + j), app('=', J[6 * i + 3 + j], '0.0'), dom, functions=fp, timeout=20)
            B.vc('pose_transform.J[%d,%d].is_zero_attitude_does_not_depend_on_position' % (3 + i, j), app('=', J[6 * (3 + i) + j], '0.0'), dom, functions=fp, timeout=20)
    for k in range(3):
        # d atan2(y, x) = (x dy - y dx) / (x^2 + y^2);  d(-asin u) = -du / sqrt(1 - u^2)   (between0And2Pi adds a locally constant multiple of 2 pi)
        B.vc('pose_transform.J[3,%d].is_d_roll_d_angle' % (3 + k), app('=', mul(J[6 * 3 + 3 + k], den_x), sub(mul(m(2, 2), d(2, 1, k)), mul(m(2, 1), d(2, 2, k)))), dom, functions=fp, timeout=30)
        # -d/sqrt(1-u^2) stated without the square root: J^2 (1 - u^2) = du^2 and J du <= 0
        B.vc('pose_transform.J[4,%d].is_d_pitch_d_angle.magnitude' % (3 + k), app('=', mul(mul(J[6 * 4 + 3 + k], J[6 * 4 + 3 + k]), one_m), mul(d(2, 0, k), d(2, 0, k))), dom, functions=fp, timeout=30)
        B.vc('pose_transform.J[4,%d].is_d_pitch_d_angle.sign' % (3 + k), app('<=', mul(J[6 * 4 + 3 + k], d(2, 0, k)), '0.0'), dom, functions=fp, timeout=30)
        B.vc('pose_transform.J[5,%d].is_d_yaw_d_angle' % (3 + k), app('=', mul(J[6 * 5 + 3 + k], den_z), sub(mul(m(0, 0), d(1, 0, k)), mul(m(1, 0), d(0, 0, k)))), dom, functions=fp, timeout=30)


LS_N, LS_M, LS_D = 2, 4, 3      # estimate size, allocated rows of J / Y (stale rows of an earlier, larger problem), data size
LS_BOUND = 'LeastSquares<double> with estimate size %d, %d allocated rows, data size %d (dynamic-size Eigen members bound to these sizes)' % (LS_N, LS_M, LS_D)


def least_squares(B):
    """BOUNDED stand-in (fixed sizes, never counted as proved): 'the covariance reported by the least-squares solver equals the data variance
    times the inverse normal matrix mapped through the configured (diagonal) preconditioner', on the real computeJTJ_, computeJTY_,
    estimateUsingCholeskyDecomposition and computeEstimateCovariance from ANY prior state of the solver object.
    Assumed: JtJ.ldlt().solve(I) returns the X with JtJ X = I (written adj/det)."""
    N, M, D = LS_N, LS_M, LS_D
    B.unit('src/regression/leastsquares/LeastSquares.cpp')
    P = 'romea::core::LeastSquares<double>'
    rec = 'LeastSquares_double'
    B.prog.options['dyn_shapes'] = {rec: {'Ac_': (N, N), 'Bc_': (N, 1), 'J_': (M, N), 'Y_': (M, 1), 'W_': (M, 1), 'JtJ_': (N, N), 'inverseJtJ_': (N, N), 'JtY_': (N, 1)}}
    B.prog.options['const_members'] = {'estimateSize_': N, 'dataSize_': D}
    B.function('LS__computeJTJ', P, 'computeJTJ_')
    B.function('LS__computeJTY', P, 'computeJTY_')
    B.function('LS__chol', P, 'estimateUsingCholeskyDecomposition')
    B.function('LS__cov', P, 'computeEstimateCovariance')
    B.extract()
    fl = ['LS__computeJTJ', 'LS__computeJTY', 'LS__chol', 'LS__cov']
    # any prior state of the solver (stale normal matrix, stale inverse, stale rows D..M-1 of J and Y from an earlier, larger problem)
    ls = B.sx.arbitrary_value(('struct', rec), 'ls_prior')
    ls['estimateSize_'] = str(N)
    ls['dataSize_'] = str(D)
    J = list(ls['J_']); Y = list(ls['Y_'])           # row-major M x N, M x 1
    a = [B.real('ac_%d' % i) for i in range(N)]       # the property's quantifier: diagonal preconditioner
    ls['Ac_'] = [a[i] if i == j else '0.0' for i in range(N) for j in range(N)]
    bc = list(ls['Bc_'])
    x = B.call('LS__chol', ls)
    obl = B.take_obligations()
    var = B.real('data_variance')
    cov = B.call('LS__cov', ls, var)
    B.take_obligations()
    # normal matrix and right-hand side over the D data rows only
    def jtj(i, j):
        acc = None
        for k in range(D):
            t = mul(J[k * N + i], J[k * N + j])
            acc = t if acc is None else add(acc, t)
        return acc
    def jty(i):
        acc = None
        for k in range(D):
            t = mul(J[k * N + i], Y[k])
            acc = t if acc is None else add(acc, t)
        return acc
    for i in range(N):
        for j in range(N):
            B.vc('least_squares.normal_matrix[%d,%d].is_JtJ_over_the_data_rows' % (i, j), app('=', ls['JtJ_'][i * N + j], jtj(i, j)), functions=fl, bounded=LS_BOUND)
        B.vc('least_squares.right_hand_side[%d].is_JtY_over_the_data_rows' % i, app('=', ls['JtY_'][i], jty(i)), functions=fl, bounded=LS_BOUND)
    # full rank: det(JtJ) != 0; inverse normal matrix G (symbols) with JtJ G = I
    A_ = [[jtj(i, j) for j in range(N)] for i in range(N)]
    det = sub(mul(A_[0][0], A_[1][1]), mul(A_[0][1], A_[1][0]))
    full = [app('not', app('=', det, '0.0'))]
    G = [[B.real('G_%d%d' % (i, j)) for j in range(N)] for i in range(N)]
    isinv = []
    for i in range(N):
        for j in range(N):
            acc = None
            for k in range(N):
                t = mul(A_[i][k], G[k][j])
                acc = t if acc is None else add(acc, t)
            isinv.append(app('=', acc, '1.0' if i == j else '0.0'))
    # covariance = variance * Ac * (JtJ)^-1 * Ac^T, estimate = Ac * (JtJ)^-1 * JtY + Bc
    for i in range(N):
        for j in range(N):
            B.vc('least_squares.covariance[%d,%d].is_variance_times_Ac_inverse_normal_matrix_AcT' % (i, j),
                 app('=', cov[i * N + j], mul(mul(mul(a[i], G[i][j]), a[j]), var)), full + isinv, functions=fl, timeout=60, bounded=LS_BOUND)
    k = 0
    for kind, cond, pc in dict.fromkeys(obl):
        k += 1
        B.vc('least_squares.domain.%s.%d' % (kind, k), app('=>', pc, cond), full, functions=fl, bounded=LS_BOUND)
