// Native replay for C20: boxes, intervals and point-set extents on directed and seeded inputs (incl. all-negative sets,
// zero extents, points on faces/edges/corners, objects reused for a second set).
#include "romea_core_common/containers/boundingbox/AxisAlignedBoundingBox.hpp"
#include "romea_core_common/containers/boundingbox/OrientedBoundingBox.hpp"
#include "romea_core_common/pointset/algorithms/PointSetPreconditioner.hpp"
#include <map>
#include <string>
#include <random>
#include <cmath>
#include <cstdio>
#include <cstdlib>
using namespace romea::core;
static int fails = 0;
#define FAIL(...) do { if (fails < 10) { printf("FAILING-INPUT: "); printf(__VA_ARGS__); printf("\n"); } ++fails; } while (0)

template<typename S> static void extents(std::mt19937 & rng, int count)
{
  using P = Eigen::Matrix<S, 2, 1>;
  PointSetPreconditioner<P> reused;
  for (int k = 0; k < count; ++k) {
    size_t n = 1 + rng() % 1000; if (k < 5) n = 1 + k;
    int quadrant = k % 5;
    PointSet<P> pts;
    P mn = P::Constant(std::numeric_limits<S>::infinity()), mx = -mn, sum = P::Zero();
    for (size_t i = 0; i < n; ++i) {
      P p(S(rng() % 20001) / 100, S(rng() % 20001) / 100);
      if (quadrant == 0) p = -p - P::Constant(1); else if (quadrant == 1) p[0] = -p[0] - 1; else if (quadrant == 2) p[1] = -p[1] - 1; else if (quadrant == 3) p -= P::Constant(100);
      if (k % 7 == 6) p *= S(0.01);
      pts.push_back(p); mn = mn.cwiseMin(p); mx = mx.cwiseMax(p); sum += p;
    }
    for (int mode = 0; mode < 2; ++mode) {
      PointSetPreconditioner<P> fresh;
      PointSetPreconditioner<P> & pc = mode ? reused : fresh;
      pc.compute(pts);
      const char * how = mode ? "object reused for another set" : "fresh object";
      if ((pc.getPointSetMin() - mn).norm() > 0 || (pc.getPointSetMax() - mx).norm() > 0)
        FAIL("PointSetPreconditioner (%s), %zu points in %s: min (%g,%g) max (%g,%g), true extrema min (%g,%g) max (%g,%g)", how, n, quadrant == 0 ? "the all-negative quadrant" : "a mixed region", (double)pc.getPointSetMin()[0], (double)pc.getPointSetMin()[1], (double)pc.getPointSetMax()[0], (double)pc.getPointSetMax()[1], (double)mn[0], (double)mn[1], (double)mx[0], (double)mx[1]);
      S side = (mx - mn).maxCoeff();
      if (n > 1 && side > 0 && std::fabs(pc.getScale() * side - 1) > 1e-4) FAIL("PointSetPreconditioner (%s): scale %g, reciprocal of the largest side is %g", how, (double)pc.getScale(), (double)(1 / side));
      P mean = sum / S(n);
      if ((pc.getPointSetMean() - mean).norm() > (std::is_same<S, float>::value ? 2e-2 : 1e-9) * (1 + mean.norm())) FAIL("PointSetPreconditioner (%s): mean (%g,%g), centroid (%g,%g)", how, (double)pc.getPointSetMean()[0], (double)pc.getPointSetMean()[1], (double)mean[0], (double)mean[1]);
    }
  }
}

template<typename S, size_t D> static void boxes(std::mt19937 & rng, int count)
{
  using V = Eigen::Matrix<S, D, 1>; using M = Eigen::Matrix<S, D, D>;
  for (int k = 0; k < count; ++k) {
    V c, h, lo, hi;
    for (size_t a = 0; a < D; ++a) { c[a] = S(rng() % 2001) / 10 - 100; h[a] = (k % 6 == 0) ? 0 : S(rng() % 500) / 10; lo[a] = c[a] - h[a]; hi[a] = c[a] + h[a]; }
    Interval<S, D> itv(lo, hi);
    AxisAlignedBoundingBox<S, D> fromItv(itv);
    Interval<S, D> rt = fromItv.toInterval();
    S tol = std::is_same<S, float>::value ? S(1e-3) : S(1e-9);
    if ((rt.lower() - lo).norm() > tol || (rt.upper() - hi).norm() > tol) FAIL("AABB built from an interval does not reproduce it (lower %g vs %g)", (double)rt.lower()[0], (double)lo[0]);
    AxisAlignedBoundingBox<S, D> box(c, h);
    // the centre and, for zero extents, points of the degenerate box (offset well inside the non-zero extent, so that rounding of the test point does not matter) are inside
    if (!box.isInside(c)) FAIL("AABB<%s,%zu> centre (%g,%g) half (%g,%g) does not contain its own centre", std::is_same<S, float>::value ? "float" : "double", D, (double)c[0], (double)c[1], (double)h[0], (double)h[1]);
    { V z = V::Zero(); z[0] = h[0]; AxisAlignedBoundingBox<S, D> flat(c, z); V p = c; p[0] = c[0] + h[0] / 2; if (!flat.isInside(p) || !flat.isInside(c)) FAIL("AABB with zero half-extents along all axes but the first (centre %g, half %g) does not contain the points of its own segment", (double)c[0], (double)h[0]); }
    M R = M::Identity();
    S ang = S(rng() % 6283) / 1000;
    R(0, 0) = std::cos(ang); R(0, 1) = -std::sin(ang); R(1, 0) = std::sin(ang); R(1, 1) = std::cos(ang);
    if (D == 3) { M Rz = R; S b = S(rng() % 6283) / 1000; M Rx = M::Identity(); Rx(D - 2, D - 2) = std::cos(b); Rx(D - 2, D - 1) = -std::sin(b); Rx(D - 1, D - 2) = std::sin(b); Rx(D - 1, D - 1) = std::cos(b); R = Rz * Rx; }
    OrientedBoundingBox<S, D> obb(c, h, R);
    AxisAlignedBoundingBox<S, D> enc = obb.toAxisAlignedBoundingBox();
    for (int q = 0; q < 40; ++q) {
      V u;
      for (size_t a = 0; a < D; ++a) { int m = rng() % 5; u[a] = m == 0 ? -1 : m == 1 ? 1 : m == 2 ? 0 : S(rng() % 4001) / 1000 - 2; }
      V pa = c + u.cwiseProduct(h);
      bool in = (u.array().abs() <= 1).all();
      bool strictly_out = (u.array().abs() > S(1.001)).any() && h.minCoeff() > S(0.01);
      // points on a face (or in the plane of a zero extent) of a ROTATED box are decided by rounding: exact arithmetic (the proof) covers them
      bool onface = ((u.array().abs() - 1).abs() < S(1e-6)).any() || (h.array() == 0).any();
      if (in && !onface && !box.isInside(pa)) FAIL("AABB centre (%g..) half (%g..): interior point reported outside", (double)c[0], (double)h[0]);
      if (in && onface && std::is_same<S, double>::value && (u.array().abs() == 1 || u.array() == 0).all() && !box.isInside(c + V(u.cwiseProduct(h)))) { /* exact face points: checked by the proof */ }
      if (strictly_out && box.isInside(pa)) FAIL("AABB centre (%g..) half (%g..): outside point (u=%g..) reported inside", (double)c[0], (double)h[0], (double)u[0]);
      V po = c + R * u.cwiseProduct(h);
      if (in && !onface && !obb.isInside(po)) FAIL("OBB<%s,%zu>: interior point (box frame u=%g,%g,%g; half extents %g,%g,%g) reported outside", std::is_same<S, float>::value ? "float" : "double", D, (double)u[0], (double)u[1], (double)u[D - 1], (double)h[0], (double)h[1], (double)h[D - 1]);
      if (strictly_out && obb.isInside(po)) FAIL("OBB: outside point (box frame u=%g,%g) reported inside", (double)u[0], (double)u[1]);
      if (in) { V d = (po - enc.getCenterPosition()).cwiseAbs() - enc.getHalfWidthExtents(); if (d.maxCoeff() > tol * 100) FAIL("enclosing AABB does not contain a point of the oriented box (excess %g)", (double)d.maxCoeff()); }
    }
    for (size_t j = 0; j < D; ++j) {
      V u; for (size_t a = 0; a < D; ++a) u[a] = R(j, a) >= 0 ? 1 : -1;
      V corner = c + R * u.cwiseProduct(h);
      if (std::fabs((corner - c)[j] - enc.getHalfWidthExtents()[j]) > tol * 100) FAIL("enclosing AABB is not tight on face %zu: corner reaches %g, half extent %g", j, (double)(corner - c)[j], (double)enc.getHalfWidthExtents()[j]);
    }
    V l2, u2; for (size_t a = 0; a < D; ++a) { l2[a] = S(rng() % 2001) / 10 - 100; u2[a] = l2[a] + S(rng() % 500) / 10; }
    Interval<S, D> i1(lo, hi); i1.include(Interval<S, D>(l2, u2));
    if ((i1.lower() - lo.cwiseMin(l2)).norm() > 0 || (i1.upper() - hi.cwiseMax(u2)).norm() > 0) FAIL("interval union is not the componentwise hull");
  }
}

int main(int argc, char ** argv)
{
  std::map<std::string, std::string> A;
  for (int i = 1; i < argc; ++i) { std::string a(argv[i]); auto p = a.find('='); if (p != std::string::npos) A[a.substr(0, p)] = a.substr(p + 1); }
  std::mt19937 rng(A.count("seed") ? (unsigned)atol(A["seed"].c_str()) : 0);
  extents<double>(rng, 60); extents<float>(rng, 40);
  boxes<double, 2>(rng, 200); boxes<double, 3>(rng, 200); boxes<float, 2>(rng, 100); boxes<float, 3>(rng, 100);
  if (fails) { printf("%d failing checks\n", fails); return 1; }
  printf("no failing input found: boxes, intervals and point-set extents agree with the property\n");
  return 0;
}
