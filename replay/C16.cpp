// Native replay for C16: OnlineAverage / OnlineVariance / RingOfEigenVector against the "last min(n,W) items" reference.
// The verifier's counterexamples for these functions are pre-states of one call (window content, index, sums); they are
// re-established here through the public API where possible (window size W, number of samples fed, a reset/clear before),
// then a seeded search over histories (updates interleaved with resets, all W in 1..64 / capacities 1..16, precisions 1..1e-6).
#include "romea_core_common/monitoring/OnlineAverage.hpp"
#include "romea_core_common/monitoring/OnlineVariance.hpp"
#include "romea_core_common/containers/Eigen/RingOfEigenVector.hpp"
#include <deque>
#include <map>
#include <string>
#include <random>
#include <cmath>
#include <cstdio>
#include <cstdlib>
using namespace romea::core;
static std::map<std::string, long> A;
static long arg(const std::string & k, long d) { auto it = A.find(k); return it == A.end() ? d : it->second; }

static bool g_extreme = false;
static int stats_history(unsigned seed, size_t W, double precision, int steps, int reset_every, bool variance)
{
  std::mt19937 rng(seed);
  OnlineVariance ov(precision, W < 2 ? 2 : W);
  OnlineAverage oa(precision, W);
  long long m = (long long)(int)(1 / precision);
  std::deque<long long> ref;
  std::string hist = "W=" + std::to_string(W) + " precision=" + std::to_string(precision);
  size_t Wv = W < 2 ? 2 : W;
  std::deque<long long> refv;
  for (int s = 0; s < steps; ++s) {
    if (reset_every && s && (int)(rng() % reset_every) == 0) { oa.reset(); ov.reset(); ref.clear(); refv.clear(); hist += " reset"; continue; }
    double maxv = 1e8 * precision;
    double v = ((double)(rng() % 2000001) / 1000000.0 - 1.0) * maxv * (rng() % 4 == 0 ? 1.0 : 1e-3);
    if (g_extreme) v = ((s & 1) ? -1.0 : 1.0) * maxv * (1.0 - (double)(rng() % 1000) * 1e-6);     // widest admissible spread: |value|/precision up to 1e8, alternating sign
    oa.update(v); ov.update(v);
    long long x = (long long)(v * (double)m);
    ref.push_back(x); if (ref.size() > W) ref.pop_front();
    refv.push_back(x); if (refv.size() > Wv) refv.pop_front();
    hist += " u";
    long double sum = 0; for (auto y : ref) sum += y;
    double want = (double)(sum / ((long double)m * ref.size()));
    double got = oa.getAverage();
    if (!(std::fabs(got - want) <= 1e-9 * (1 + std::fabs(want)))) {
      printf("FAILING-INPUT: OnlineAverage %s (step %d, last value %.9g): average %.12g, mean of the last %zu samples %.12g\n", hist.c_str(), s, v, got, ref.size(), want);
      return 1;
    }
    if (oa.isAvailable() != (ref.size() == W)) { printf("FAILING-INPUT: OnlineAverage %s: isAvailable()=%d with %zu samples since reset\n", hist.c_str(), (int)oa.isAvailable(), ref.size()); return 1; }
    if (variance && refv.size() == Wv) {
      long double sm = 0, sq = 0; for (auto y : refv) { sm += y; sq += (long double)y * y; }
      long double mean = sm / Wv;
      long double var = (sq - Wv * mean * mean) / (Wv - 1) / ((long double)m * m);
      double gv = ov.getVariance();
      double tol = 1e-6 * (1 + std::fabs((double)var)) + 1e-9 * (double)(mean / m) * (double)(mean / m) * Wv;
      if (!(std::fabs(gv - (double)var) <= tol)) {
        printf("FAILING-INPUT: OnlineVariance %s (step %d): variance %.12g, unbiased sample variance of the last %zu samples %.12g\n", hist.c_str(), s, gv, Wv, (double)var);
        return 1;
      }
    }
  }
  return 0;
}

static int ring_history(unsigned seed, size_t cap, int steps, int clear_every)
{
  std::mt19937 rng(seed);
  RingOfEigenVector<Eigen::Vector2d> ring(cap);
  std::deque<Eigen::Vector2d> ref;
  std::string hist = "capacity=" + std::to_string(cap);
  int c = 0;
  for (int s = 0; s < steps; ++s) {
    if (clear_every && s && (int)(rng() % clear_every) == 0) { ring.clear(); ref.clear(); hist += " clear"; }
    Eigen::Vector2d p(c, -c); ++c;
    ring.append(p); ref.push_front(p); if (ref.size() > cap) ref.pop_back();
    hist += " a";
    if (ring.size() != ref.size()) { printf("FAILING-INPUT: ring %s: size %zu, expected %zu\n", hist.c_str(), ring.size(), ref.size()); return 1; }
    for (size_t k = 0; k < ref.size(); ++k) {
      size_t slot = (ring.ringIndex_ + ring.size() - k) % ring.size();
      if (slot >= ring.get().size()) { printf("FAILING-INPUT: ring %s: entry %zu would read slot %zu of %zu\n", hist.c_str(), k, slot, ring.get().size()); return 1; }
      if (ring[k] != ref[k]) { printf("FAILING-INPUT: ring %s: entry %zu is item %g, the %zu-th most recent item is %g\n", hist.c_str(), k, ring[k][0], k, ref[k][0]); return 1; }
    }
  }
  return 0;
}

int main(int argc, char ** argv)
{
  for (int i = 1; i < argc; ++i) { std::string a(argv[i]); auto p = a.find('='); if (p == std::string::npos) continue; if (a.substr(0, p) != "obligation") A[a.substr(0, p)] = strtol(a.substr(p + 1).c_str(), nullptr, 10); }
  unsigned seed = (unsigned)arg("seed", 0);
  // directed: the counterexample's window size, fed to the counterexample's fill level, with a reset in between
  if (A.count("g_size0")) {
    size_t W = (size_t)std::max<long>(1, std::min<long>(64, arg("g_w", arg("g_size0", 1) ? arg("g_size0", 1) : 1)));
    for (int re : {0, 3, 7}) for (double pr : {1.0, 1e-3, 1e-5, 1e-6}) if (stats_history(seed, W, pr, 10 * (int)W + 5, re, true)) return 1;
  }
  double precs[] = {1.0, 0.1, 1e-2, 1e-3, 1e-4, 1e-5, 1e-6};
  for (size_t W = 1; W <= 64; ++W)
    for (double pr : precs)
      for (int re : {0, 5, 17}) if (stats_history(seed * 131u + (unsigned)W, W, pr, (int)(10 * W), re, true)) return 1;
  g_extreme = true;
  for (size_t W : {2, 3, 8, 16, 30, 31, 32, 47, 63, 64})
    for (double pr : precs)
      for (int re : {0, 17}) if (stats_history(seed * 17u + (unsigned)W, W, pr, (int)(4 * W), re, true)) return 1;
  g_extreme = false;
  for (size_t cap = 1; cap <= 16; ++cap) for (int ce : {0, 4, 9}) if (ring_history(seed + (unsigned)cap, cap, (int)(10 * cap + 3), ce)) return 1;
  printf("no failing input found: histories for W=1..64, precisions 1..1e-6, capacities 1..16 agree with the last-W reference\n");
  return 0;
}
