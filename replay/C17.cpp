// Native replay for C17: RateMonitoring and the rate check-ups against a reference model of the stamped-event history.
// Counterexample inputs (window fill level g_size0, stamps g_last0/g_t) seed a directed history; then a seeded search over
// steady / jittered / bursty streams with silences and interleaved heartbeats, expected rates 0.5..200 Hz.
#include "romea_core_common/monitoring/RateMonitoring.hpp"
#include "romea_core_common/diagnostic/CheckupRate.hpp"
#include <deque>
#include <map>
#include <string>
#include <random>
#include <cmath>
#include <cstdio>
#include <cstdlib>
using namespace romea::core;
static int fails = 0;
#define FAIL(...) do { if (fails < 12) { printf("FAILING-INPUT: "); printf(__VA_ARGS__); printf("\n"); } ++fails; } while (0)

struct Model {
  size_t W; std::deque<long long> P; long long last = 0; double rate = 0; size_t seen = 0;
  explicit Model(double r) { size_t w = (size_t)(2 * r); W = std::min<size_t>(std::max<size_t>(w, 4), 64); }
  double update(long long t) {
    P.push_back(t - last); last = t; ++seen;
    if (P.size() == W + 1) { P.pop_front(); long double s = 0; for (auto p : P) s += p; rate = (double)((long double)W / (s * 1e-9L)); }
    return rate;
  }
  bool timeout(long long t) { if (!P.empty() && (t - last) / 1e9 > 0.5) { rate = 0; return true; } return false; }
};

static bool close_to(double a, double b) { return std::fabs(a - b) <= 1e-9 * (1 + std::fabs(b)); }

static void history(unsigned seed, double expected, int kind, int nevents, long long t0)
{
  std::mt19937_64 rng(seed);
  RateMonitoring mon(expected); Model m(expected);
  double eps = expected * 0.1;
  CheckupEqualToRate ce("s", expected, eps); CheckupGreaterThanRate cg("s", expected, eps);
  Model me(expected), mg(expected);
  bool staleE = false, started = false;
  long long t = t0;
  long long period = (long long)(1e9 / expected);
  std::string hist = "rate=" + std::to_string(expected) + " kind=" + std::to_string(kind);
  { DiagnosticReport r = ce.getReport();
    if (r.diagnostics.front().status != DiagnosticStatus::ERROR || r.diagnostics.front().message != "no data received from s") FAIL("%s: initial report status=%d message='%s'", hist.c_str(), (int)r.diagnostics.front().status, r.diagnostics.front().message.c_str()); }
  for (int e = 0; e < nevents; ++e) {
    long long dt;
    switch (kind) {
      case 0: dt = period; break;
      case 1: dt = period / 2 + (long long)(rng() % (unsigned long long)(period + 1)); break;
      case 2: dt = (rng() % 5 == 0) ? period * 4 : 1000 + (long long)(rng() % 2000); break;
      default: dt = (rng() % 9 == 0) ? 700000000LL + (long long)(rng() % 3000000000ULL) : period; break;
    }
    if (dt < 1000) dt = 1000; if (dt > 10000000000LL) dt = 10000000000LL;
    bool heartbeat = (rng() % 4 == 0);
    if (heartbeat) {
      long long th = t + (long long)(rng() % (unsigned long long)(dt));   // between the last stamp and the next one
      bool want = m.timeout(th); bool got = mon.timeout(durationFromNanoSecond(th));
      if (want != got) FAIL("%s: event %d heartbeat at +%lld ns after last stamp: timeout()=%d expected %d", hist.c_str(), e, th - t, (int)got, (int)want);
      if (!close_to(mon.getRate(), m.rate)) FAIL("%s: event %d after heartbeat: rate %.12g expected %.12g", hist.c_str(), e, mon.getRate(), m.rate);
      bool aliveE = ce.heartBeatCallback(durationFromNanoSecond(th)); bool wantE = !me.timeout(th);
      bool aliveG = cg.heartBeatCallback(durationFromNanoSecond(th)); mg.timeout(th);
      if (aliveE != wantE) FAIL("%s: event %d check-up heartbeat returned %d expected %d", hist.c_str(), e, (int)aliveE, (int)wantE);
      if (!wantE) {
        for (DiagnosticReport r : {ce.getReport(), cg.getReport()})
          if (r.diagnostics.front().status != DiagnosticStatus::STALE || r.diagnostics.front().message != "s_rate timeout." || r.info.begin()->second != "")
            FAIL("%s: event %d after timeout: status=%d message='%s' value='%s'", hist.c_str(), e, (int)r.diagnostics.front().status, r.diagnostics.front().message.c_str(), r.info.begin()->second.c_str());
      }
      (void)aliveG; (void)staleE; (void)started;
      continue;
    }
    t += dt;
    double want = m.update(t); double got = mon.update(durationFromNanoSecond(t));
    if (!close_to(got, want)) FAIL("%s: event %d stamp %lld (period %lld ns, %zu stamps seen, W=%zu): update() returned %.12g, expected %.12g", hist.c_str(), e, t, dt, m.seen, m.W, got, want);
    double re = me.update(t), rg = mg.update(t);
    DiagnosticStatus se = ce.evaluate(durationFromNanoSecond(t)), sg = cg.evaluate(durationFromNanoSecond(t));
    DiagnosticReport rE = ce.getReport(), rG = cg.getReport();
    double shownE = atof(rE.info.begin()->second.c_str());
    bool okE = shownE >= expected - eps && shownE <= expected + eps;
    if (!close_to(shownE, re) && std::fabs(shownE - re) > 1e-4 * (1 + re)) FAIL("%s: event %d equal-to check-up shows rate '%s', model %.9g", hist.c_str(), e, rE.info.begin()->second.c_str(), re);
    if ((se == DiagnosticStatus::OK) != okE || rE.diagnostics.front().status != se) FAIL("%s: event %d equal-to check-up status %d (stored %d) with shown rate %s", hist.c_str(), e, (int)se, (int)rE.diagnostics.front().status, rE.info.begin()->second.c_str());
    std::string wantMsg = std::string("s_rate") + (okE ? " is OK." : (shownE < expected - eps ? " is too low." : " is too high."));
    if (rE.diagnostics.front().message != wantMsg) FAIL("%s: event %d equal-to check-up message '%s' expected '%s'", hist.c_str(), e, rE.diagnostics.front().message.c_str(), wantMsg.c_str());
    double shownG = atof(rG.info.begin()->second.c_str());
    if ((sg == DiagnosticStatus::OK) != (shownG > expected - eps) || rG.diagnostics.front().status != sg) FAIL("%s: event %d greater-than check-up status %d with shown rate %s", hist.c_str(), e, (int)sg, rG.info.begin()->second.c_str());
    if (std::fabs(shownG - rg) > 1e-4 * (1 + rg)) FAIL("%s: event %d greater-than check-up shows rate '%s', model %.9g", hist.c_str(), e, rG.info.begin()->second.c_str(), rg);
  }
}

// directed history: n stamps (n = 1, 2, W, W+1), then silence with heartbeats at +0.3 s, +0.6 s, +2 s after the last stamp
static void stamps_then_silence(double expected, int nstamps, long long t0)
{
  RateMonitoring mon(expected); Model m(expected);
  double eps = expected * 0.1;
  CheckupEqualToRate ce("s", expected, eps); CheckupGreaterThanRate cg("s", expected, eps);
  Model me(expected);
  long long t = t0, period = (long long)(1e9 / expected);
  for (int k = 0; k < nstamps; ++k) { t += period; m.update(t); me.update(t); mon.update(durationFromNanoSecond(t)); ce.evaluate(durationFromNanoSecond(t)); cg.evaluate(durationFromNanoSecond(t)); }
  for (long long off : {300000000LL, 600000000LL, 2000000000LL}) {
    long long th = t + off;
    bool want = m.timeout(th), got = mon.timeout(durationFromNanoSecond(th));
    if (want != got) FAIL("rate=%g: %d stamp(s) then a heartbeat %.1f s after the last one: timeout()=%d expected %d", expected, nstamps, off / 1e9, (int)got, (int)want);
    bool wantAlive = !me.timeout(th), alive = ce.heartBeatCallback(durationFromNanoSecond(th)); cg.heartBeatCallback(durationFromNanoSecond(th));
    if (alive != wantAlive) FAIL("rate=%g: %d stamp(s) then a heartbeat %.1f s after the last one: check-up heartbeat returned %d expected %d", expected, nstamps, off / 1e9, (int)alive, (int)wantAlive);
    if (!wantAlive)
      for (DiagnosticReport r : {ce.getReport(), cg.getReport()})
        if (r.diagnostics.front().status != DiagnosticStatus::STALE || r.diagnostics.front().message != "s_rate timeout." || r.info.begin()->second != "")
          FAIL("rate=%g: %d stamp(s) then silence of %.1f s: report status=%d message='%s' value='%s' (expected STALE, 's_rate timeout.', '')", expected, nstamps, off / 1e9, (int)r.diagnostics.front().status, r.diagnostics.front().message.c_str(), r.info.begin()->second.c_str());
  }
}

int main(int argc, char ** argv)
{
  std::map<std::string, long long> A;
  for (int i = 1; i < argc; ++i) { std::string a(argv[i]); auto p = a.find('='); if (p != std::string::npos && a.substr(0, p) != "obligation") A[a.substr(0, p)] = atoll(a.substr(p + 1).c_str()); }
  unsigned seed = A.count("seed") ? (unsigned)A["seed"] : 0;
  long long t0 = A.count("g_last0") && A["g_last0"] >= 0 && A["g_last0"] < 4000000000000000000LL ? A["g_last0"] : 0;
  double rates[] = {0.5, 1, 2, 3.3, 5, 10, 20, 31.9, 50, 100, 200};
  for (double r : rates) for (int kind = 0; kind < 4; ++kind) { history(seed * 977u + kind, r, kind, 500, 0); history(seed * 977u + 7 + kind, r, kind, 300, t0 ? t0 : 1700000000000000000LL); }
  for (double r : rates) { Model mm(r); for (int n : {0, 1, 2, (int)mm.W, (int)mm.W + 1, (int)mm.W + 2}) { stamps_then_silence(r, n, 0); stamps_then_silence(r, n, 1700000000000000000LL); } }
  if (fails) { printf("%d mismatches\n", fails); return 1; }
  printf("no failing input found: monitor and check-ups follow the reference model over steady, jittered, bursty and silent histories\n");
  return 0;
}
