// Native replay for C02: ENU frame at anchors over the property's quantifier; orientation (east / north / up by small geodetic
// displacements), rigidity, mutual inverses within 1 mm, and call sequences construct / setAnchor / reset / convert.
#include "romea_core_common/geodesy/ENUConverter.hpp"
#include <map>
#include <string>
#include <random>
#include <cmath>
#include <cstdio>
#include <cstdlib>
using namespace romea::core;
static int fails = 0;
#define FAIL(...) do { if (fails < 10) { printf("FAILING-INPUT: "); printf(__VA_ARGS__); printf("\n"); } ++fails; } while (0)

static void frame_checks(ENUConverter & c, const GeodeticCoordinates & a, const char * how, std::mt19937 & rng)
{
  if (!c.isAnchored()) { FAIL("%s: converter not anchored", how); return; }
  Eigen::Vector3d o = c.toENU(a);
  if (o.norm() > 1e-3) FAIL("%s: anchor (lat=%.9g lon=%.9g h=%.6g) maps to (%.6g,%.6g,%.6g), not the origin", how, a.latitude, a.longitude, a.altitude, o[0], o[1], o[2]);
  double hh = 1 + rng() % 5000;
  Eigen::Vector3d u = c.toENU(makeGeodeticCoordinates(a.latitude, a.longitude, a.altitude + hh));
  if ((u - Eigen::Vector3d(0, 0, hh)).norm() > 1e-3) FAIL("%s: point %.6g m above the anchor (lat=%.9g lon=%.9g) maps to (%.6g,%.6g,%.6g)", how, hh, a.latitude, a.longitude, u[0], u[1], u[2]);
  double dl = 1e-6;
  Eigen::Vector3d e = c.toENU(makeGeodeticCoordinates(a.latitude, a.longitude + dl, a.altitude));
  Eigen::Vector3d n = c.toENU(makeGeodeticCoordinates(a.latitude + dl, a.longitude, a.altitude));
  if (!(e[0] > 0 && std::fabs(e[1]) < 1e-3 * e[0] + 1e-6 && std::fabs(e[2]) < 1e-3 * e[0] + 1e-6)) FAIL("%s: a point slightly east of the anchor (lat=%.9g lon=%.9g) has local coordinates (%.6g,%.6g,%.6g): first axis is not east", how, a.latitude, a.longitude, e[0], e[1], e[2]);
  if (!(n[1] > 0 && std::fabs(n[0]) < 1e-3 * n[1] + 1e-6 && std::fabs(n[2]) < 1e-3 * n[1] + 1e-6)) FAIL("%s: a point slightly north of the anchor (lat=%.9g lon=%.9g) has local coordinates (%.6g,%.6g,%.6g): second axis is not north", how, a.latitude, a.longitude, n[0], n[1], n[2]);
  const Eigen::Affine3d & T = c.getEnuToEcefTransform();
  Eigen::Matrix3d R = T.linear();
  if ((R.transpose() * R - Eigen::Matrix3d::Identity()).norm() > 1e-12 || std::fabs(R.determinant() - 1) > 1e-12) FAIL("%s: frame transform at lat=%.9g lon=%.9g is not a proper rotation (det %.15g)", how, a.latitude, a.longitude, R.determinant());
  for (int k = 0; k < 5; ++k) {
    Eigen::Vector3d p((double)(rng() % 200001) - 100000, (double)(rng() % 200001) - 100000, (double)(rng() % 20001) - 10000), q((double)(rng() % 2001) - 1000, (double)(rng() % 2001) - 1000, (double)(rng() % 201) - 100);
    Eigen::Vector3d P = c.toECEF(p), Q = c.toECEF(q);
    if (std::fabs((P - Q).norm() - (p - q).norm()) > 1e-6) FAIL("%s: distance %.9g becomes %.9g in ECEF", how, (p - q).norm(), (P - Q).norm());
    if ((c.toENU(P) - p).norm() > 1e-3) FAIL("%s: toENU(toECEF(p)) differs from p by %.6g m", how, (c.toENU(P) - p).norm());
    GeodeticCoordinates g = c.toWGS84(p);
    ENUConverter c2 = c;
    if ((c2.toENU(g) - p).norm() > 1e-3) FAIL("%s: toENU(toWGS84(p)) differs from p by %.6g m (anchor lat=%.9g lon=%.9g)", how, (c2.toENU(g) - p).norm(), a.latitude, a.longitude);
  }
}

int main(int argc, char ** argv)
{
  std::map<std::string, std::string> A;
  for (int i = 1; i < argc; ++i) { std::string a(argv[i]); auto p = a.find('='); if (p != std::string::npos) A[a.substr(0, p)] = a.substr(p + 1); }
  std::mt19937 rng(A.count("seed") ? (unsigned)atol(A["seed"].c_str()) : 0);
  const double D = M_PI / 180;
  auto rnd_anchor = [&](int k) {
    double lat = ((double)(rng() % 1700001) / 10000 - 85) * D, lon = ((double)(rng() % 3600001) / 10000 - 180) * D, h = (double)(rng() % 9501) - 500;
    if (k == 0) { lat = 45.78 * D; lon = 3.08 * D; h = 365; } if (k == 1) { lat = -85 * D; lon = 180 * D; h = -500; } if (k == 2) { lat = 85 * D; lon = -180 * D; h = 9000; } if (k == 3) { lat = 0; lon = 0; h = 0; }
    return makeGeodeticCoordinates(lat, lon, h); };
  for (int k = 0; k < 60; ++k) {
    GeodeticCoordinates a = rnd_anchor(k), b = rnd_anchor(k + 100);
    { ENUConverter c(a); frame_checks(c, a, "construct(anchor)", rng); }
    { ENUConverter c; if (c.isAnchored()) FAIL("default-constructed converter reports anchored"); Eigen::Vector3d o = c.toENU(a); if (o.norm() > 1e-3) FAIL("auto-anchor: first converted point maps to (%.6g,%.6g,%.6g)", o[0], o[1], o[2]); frame_checks(c, a, "auto-anchor on first geodetic point", rng); }
    { ENUConverter c(a); c.toENU(b); c.setAnchor(b); frame_checks(c, b, "construct(A); use; setAnchor(B)", rng); }
    { ENUConverter c(a); c.toENU(b); c.reset(); if (c.isAnchored()) FAIL("reset() leaves the converter anchored"); if (!c.getEnuToEcefTransform().matrix().isApprox(Eigen::Matrix4d::Identity())) FAIL("reset() does not clear the transform"); c.toENU(b); frame_checks(c, b, "construct(A); use; reset; auto-anchor(B)", rng); }
    // third overload (latitude/longitude only, taken at the stored anchor altitude): same anchoring behaviour as the geodetic overload
    { ENUConverter c; WGS84Coordinates w = makeWGS84Coordinates(a.latitude, a.longitude); Eigen::Vector3d o = c.toENU(w);
      if (!c.isAnchored()) FAIL("un-anchored converter did not anchor itself on the first 2-D point (lat=%.9g lon=%.9g)", a.latitude, a.longitude);
      else if (o.norm() > 1e-3) FAIL("auto-anchor on a 2-D point: the point maps to (%.6g,%.6g,%.6g) instead of the origin", o[0], o[1], o[2]);
      else frame_checks(c, makeGeodeticCoordinates(a.latitude, a.longitude, c.getAnchor().altitude), "auto-anchor on first 2-D point", rng); }
    { ENUConverter c(a); c.toENU(b); c.reset(); WGS84Coordinates w = makeWGS84Coordinates(b.latitude, b.longitude); Eigen::Vector3d o = c.toENU(w);
      if (!c.isAnchored()) FAIL("construct(A); reset; first 2-D point (lat=%.9g lon=%.9g): converter did not re-anchor itself", b.latitude, b.longitude);
      else if (o.norm() > 1e-3) FAIL("construct(A); reset; first 2-D point maps to (%.6g,%.6g,%.6g) instead of the origin", o[0], o[1], o[2]);
      else frame_checks(c, makeGeodeticCoordinates(b.latitude, b.longitude, c.getAnchor().altitude), "construct(A); reset; auto-anchor on 2-D point(B)", rng); }
    { ENUConverter c(a); Eigen::Vector3d o = c.toENU(makeWGS84Coordinates(a.latitude, a.longitude));
      if (o.norm() > 1e-3) FAIL("anchored converter: the anchor's own latitude/longitude (2-D overload) maps to (%.6g,%.6g,%.6g)", o[0], o[1], o[2]);
      frame_checks(c, a, "construct(A); 2-D conversion keeps the frame", rng); }
    { ENUConverter c; c.setAnchor(a); c.setAnchor(b); c.toENU(a); c.reset(); c.setAnchor(a); frame_checks(c, a, "setAnchor(A); setAnchor(B); use; reset; setAnchor(A)", rng); }
  }
  if (fails) { printf("%d failing checks\n", fails); return 1; }
  printf("no failing input found: frame orientation, rigidity, inverses and anchor/reset sequences agree with the property\n");
  return 0;
}
