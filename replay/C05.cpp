// Native replay for C05: FindRigidTransformationByLeastSquares (2-D and 3-D Cartesian double points): the returned small-motion transform
// against an independent solution of the linearised point-to-plane least-squares problem (normal equations solved with Eigen), exact recovery
// of pure translations, O(t^2) recovery of small rotations, aligned against index-based correspondences, object reused after a larger problem.
#include "romea_core_common/transform/estimation/FindRigidTransformationByLeastSquares.hpp"
#include <Eigen/Dense>
#include <algorithm>
#include <cstdio>
#include <map>
#include <random>
#include <string>
using namespace romea::core;
static int fails = 0;
#define FAIL(...) do { if (fails < 20) { printf("FAILING-INPUT: "); printf(__VA_ARGS__); printf("\n"); } ++fails; } while (0)
static double u01(std::mt19937 & r) { return (double)(r() % 2000001) / 1000000.0 - 1.0; }

template<int D> static Eigen::Matrix<double, D + 1, D + 1> reference(const PointSet<Eigen::Matrix<double, D, 1>> & src, const PointSet<Eigen::Matrix<double, D, 1>> & dst,
  const NormalSet<Eigen::Matrix<double, D, 1>> & nrm, const std::vector<Correspondence> & c)
{
  const int P = D == 2 ? 3 : 6;
  Eigen::MatrixXd J(c.size(), P); Eigen::VectorXd Y(c.size());
  for (size_t k = 0; k < c.size(); ++k) {
    auto s = src[c[k].sourcePointIndex]; auto q = dst[c[k].targetPointIndex]; auto n = nrm[c[k].targetPointIndex];
    for (int i = 0; i < D; ++i) J(k, i) = n[i];
    if (D == 2) J(k, 2) = s[0] * n[1] - s[1] * n[0];
    else { Eigen::Vector3d s3(s[0], s[1], s[D - 1]), n3(n[0], n[1], n[D - 1]), cr = s3.cross(n3); for (int i = 0; i < 3; ++i) J(k, 3 + i) = cr[i]; }
    Y(k) = (q - s).dot(n);
  }
  Eigen::VectorXd x = (J.transpose() * J).ldlt().solve(J.transpose() * Y);
  Eigen::Matrix<double, D + 1, D + 1> H = Eigen::Matrix<double, D + 1, D + 1>::Identity();
  for (int i = 0; i < D; ++i) H(i, D) = x[i];
  if (D == 2) { H(0, 1) = -x[2]; H(1, 0) = x[2]; }
  else { H(0, 1) = -x[5]; H(1, 0) = x[5]; H(0, 2) = x[4]; H(2, 0) = -x[4]; H(1, 2) = -x[3]; H(2, 1) = x[3]; }
  return H;
}

template<int D> static void trial(std::mt19937 & rng, int kind)
{
  using V = Eigen::Matrix<double, D, 1>;
  int n = 16 + rng() % 40;      // the property's quantifier: at least 6 correspondences, normals spanning the space
  PointSet<V> src, dst; NormalSet<V> nrm;
  V T; for (int i = 0; i < D; ++i) T[i] = kind == 2 ? 0.0 : u01(rng);
  double th = kind == 0 ? 0.0 : u01(rng) * 0.05;
  Eigen::Matrix<double, D, D> R = Eigen::Matrix<double, D, D>::Identity();
  if (D == 2) { R(0, 0) = std::cos(th); R(0, 1) = -std::sin(th); R(1, 0) = std::sin(th); R(1, 1) = std::cos(th); }
  else { Eigen::Matrix3d R3 = Eigen::AngleAxisd(th, Eigen::Vector3d(1, -2, 0.5).normalized()).toRotationMatrix(); for (int i = 0; i < D; ++i) for (int j = 0; j < D; ++j) R(i, j) = R3(i, j); }
  for (int i = 0; i < n; ++i) {
    V p, nn; for (int k = 0; k < D; ++k) { p[k] = u01(rng) * 10; nn[k] = u01(rng); }
    if (nn.norm() < 0.2) nn[i % D] += 1.0;
    nn.normalize();
    src.push_back(p); dst.push_back(R * p + T); nrm.push_back(nn);
  }
  std::vector<Correspondence> id; for (int i = 0; i < n; ++i) id.emplace_back(i, i);
  FindRigidTransformationByLeastSquares<V> f;
  Eigen::Matrix<double, D + 1, D + 1> H = f.find(src, dst, nrm), ref = reference<D>(src, dst, nrm, id);
  if (!((H - ref).norm() <= 1e-8 * (1 + ref.norm()))) FAIL("%dD, %d aligned points, translation %.3g, rotation %.3g rad: result differs from the solution of the linearised point-to-plane normal equations by %.3g", D, n, T.norm(), th, (H - ref).norm());
  if (kind == 0) { double e = 0; for (int i = 0; i < D; ++i) e = std::max(e, std::fabs(H(i, D) - T[i])); if (!(e <= 1e-8) || !((H.template block<D, D>(0, 0) - Eigen::Matrix<double, D, D>::Identity()).norm() <= 1e-8)) FAIL("%dD pure translation (%.3g): not recovered exactly (translation error %.3g)", D, T.norm(), e); }
  if (kind == 1 && !((H.template block<D, D>(0, 0) - R).norm() <= 3 * th * th + 1e-9)) FAIL("%dD rotation of %.3g rad: linear part differs from the rotation by %.3g > O(t^2)", D, th, (H.template block<D, D>(0, 0) - R).norm());
  // index-based correspondences: a permuted subset, on a fresh object and on the object that has just solved the larger problem
  std::vector<Correspondence> sub;
  PointSet<V> dperm = dst; NormalSet<V> nperm = nrm; std::vector<int> perm(n); for (int i = 0; i < n; ++i) perm[i] = i; std::shuffle(perm.begin(), perm.end(), rng);
  for (int i = 0; i < n; ++i) { dperm[perm[i]] = dst[i]; nperm[perm[i]] = nrm[i]; }
  for (int i = 0; i < n; i += 1 + (i % 3 == 0)) sub.emplace_back(i, perm[i]);
  Eigen::Matrix<double, D + 1, D + 1> refs = reference<D>(src, dperm, nperm, sub);
  Eigen::Matrix<double, D + 1, D + 1> H2 = f.find(src, dperm, nperm, sub);
  if (!((H2 - refs).norm() <= 1e-8 * (1 + refs.norm()))) FAIL("%dD, %zu index-based correspondences (object reused after %d aligned points): result differs from the linearised normal-equation solution by %.3g", D, sub.size(), n, (H2 - refs).norm());
  FindRigidTransformationByLeastSquares<V> g;
  Eigen::Matrix<double, D + 1, D + 1> H3 = g.find(src, dperm, nperm, sub);
  if (!((H3 - refs).norm() <= 1e-8 * (1 + refs.norm()))) FAIL("%dD, %zu index-based correspondences (fresh object): result differs from the linearised normal-equation solution by %.3g", D, sub.size(), (H3 - refs).norm());
}

// preconditioning invariance on ONE estimator object reconfigured for successive scan pairs: scale 0.05, then 1, then 20 (isotropic scaling
// of both sets, same scale, no translation): every result must be the transform found on the raw points
template<int D> static void precond_sequence(std::mt19937 & rng)
{
  using V = Eigen::Matrix<double, D, 1>;
  FindRigidTransformationByLeastSquares<V> f;
  for (double scale : {0.05, 1.0, 20.0, 1.0}) {
    int n = 20 + rng() % 20;
    PointSet<V> src, dst; NormalSet<V> nrm;
    V T; for (int i = 0; i < D; ++i) T[i] = 0.3 + 0.4 * u01(rng);
    for (int i = 0; i < n; ++i) { V p, nn; for (int k = 0; k < D; ++k) { p[k] = u01(rng) * 10; nn[k] = u01(rng); } if (nn.norm() < 0.2) nn[i % D] += 1.0; nn.normalize(); src.push_back(p); dst.push_back(p + T); nrm.push_back(nn); }
    std::vector<Correspondence> id; for (int i = 0; i < n; ++i) id.emplace_back(i, i);
    PreconditionedPointSet<V> ps, pt; ps.compute(src, scale); pt.compute(dst, scale);
    f.setPreconditioner(ps, pt);
    Eigen::Matrix<double, D + 1, D + 1> H = f.find(ps, pt, nrm), ref = reference<D>(src, dst, nrm, id);
    if (!((H - ref).norm() <= 1e-7 * (1 + ref.norm()))) FAIL("%dD, one estimator reconfigured with setPreconditioner, preconditioning scale %g: result differs from the one found on the raw points by %.3g (translation x = %.6g, expected %.6g)", D, scale, (H - ref).norm(), H(0, D), ref(0, D));
  }
}

int main(int argc, char ** argv)
{
  std::map<std::string, std::string> A;
  for (int i = 1; i < argc; ++i) { std::string a(argv[i]); auto p = a.find('='); if (p != std::string::npos) A[a.substr(0, p)] = a.substr(p + 1); }
  std::mt19937 rng(A.count("seed") ? (unsigned)atol(A["seed"].c_str()) : 0);
  for (int k = 0; k < 120; ++k) { trial<3>(rng, k % 3); trial<2>(rng, k % 3); }
  for (int k = 0; k < 5; ++k) { precond_sequence<3>(rng); precond_sequence<2>(rng); }
  if (fails) { printf("%d failing checks\n", fails); return 1; }
  printf("no failing input found: results solve the linearised point-to-plane normal equations; translations exact; rotations to O(t^2); aligned and index-based agree\n");
  return 0;
}
