// Native replay for C03: Lambert conformal conic over the property's quantifier: secant sets with standard parallels 1..20 deg
// apart at mid latitudes of either hemisphere, tangent sets with k0 in [0.99, 1], eccentricities 0..0.1, points within +-8 deg of
// latitude and +-30 deg of longitude of the origin.  Checks: conformality and true scale by central differences of the real
// toLambert (tolerance 2e-6 relative), origin -> (x0, y0), central meridian -> x = x0, inverse within 1e-11 rad and finite.
#include "romea_core_common/geodesy/LambertConverter.hpp"
#include "romea_core_common/geodesy/EarthEllipsoid.hpp"
#include <map>
#include <string>
#include <random>
#include <cmath>
#include <cstdio>
#include <cstdlib>
#include <future>
#include <chrono>
using namespace romea::core;
static int fails = 0;
#define FAIL(...) do { if (fails < 40) { printf("FAILING-INPUT: "); printf(__VA_ARGS__); printf("\n"); } ++fails; } while (0)
static const double D = M_PI / 180;

struct Scale { double h, k, cosang; };
static Scale scales(const LambertConverter & lc, double a, double e, double lat, double lon)
{
  const double d = 1e-6;
  Eigen::Vector2d pe = lc.toLambert({lat, lon + d}) - lc.toLambert({lat, lon - d});
  Eigen::Vector2d pn = lc.toLambert({lat + d, lon}) - lc.toLambert({lat - d, lon});
  double W = 1 - e * e * std::sin(lat) * std::sin(lat);
  double N = a / std::sqrt(W), M = a * (1 - e * e) / (W * std::sqrt(W));
  Scale s;
  s.k = pe.norm() / (2 * d) / (N * std::cos(lat));
  s.h = pn.norm() / (2 * d) / M;
  s.cosang = pe.dot(pn) / (pe.norm() * pn.norm());
  return s;
}

static WGS84Coordinates inverseWithTimeout(const LambertConverter & lc, const Eigen::Vector2d & p, bool & hung)
{
  // a fixed-point loop that never meets its exit test is reported as a failing input, not as a hang of the driver
  auto fut = std::async(std::launch::async, [&lc, p] {return lc.toWGS84(p);});
  if (fut.wait_for(std::chrono::seconds(5)) != std::future_status::ready) {hung = true; printf("FAILING-INPUT: toWGS84(%.6f, %.6f) does not terminate\n", p.x(), p.y()); fflush(stdout); _Exit(1);}
  hung = false;
  return fut.get();
}

static void points(const LambertConverter & lc, const char * what, double a, double e, double lat0, double lon0, double x0, double y0, std::mt19937 & rng, int npts)
{
  Eigen::Vector2d o = lc.toLambert({lat0, lon0});
  if (std::fabs(o.x() - x0) > 1e-3 || std::fabs(o.y() - y0) > 1e-3) FAIL("[%s] origin (lat0=%.6f deg, lon0=%.6f deg) maps to (%.4f, %.4f), expected false origin (%.4f, %.4f)", what, lat0 / D, lon0 / D, o.x(), o.y(), x0, y0);
  for (int k = 0; k < npts; ++k) {
    double lat = lat0 + ((double)(rng() % 160001) / 10000 - 8) * D, lon = lon0 + ((double)(rng() % 600001) / 10000 - 30) * D;
    if (std::fabs(lat) > 88 * D) continue;
    if (k == 0) {lat = lat0; lon = lon0;}
    Eigen::Vector2d cm = lc.toLambert({lat, lon0});
    if (std::fabs(cm.x() - x0) > 1e-3) FAIL("[%s] central meridian point lat=%.6f deg maps to x=%.6f, expected x0=%.6f", what, lat / D, cm.x(), x0);
    Scale s = scales(lc, a, e, lat, lon);
    if (!(std::fabs(s.h / s.k - 1) < 2e-6) || !(std::fabs(s.cosang) < 2e-6)) FAIL("[%s] not conformal at lat=%.6f deg lon=%.6f deg: meridian scale %.9f, parallel scale %.9f, cos(angle)=%.3g", what, lat / D, lon / D, s.h, s.k, s.cosang);
    Eigen::Vector2d p = lc.toLambert({lat, lon});
    bool hung;
    WGS84Coordinates w = inverseWithTimeout(lc, p, hung);
    if (!std::isfinite(w.latitude) || !std::isfinite(w.longitude)) {FAIL("[%s] inverse of the image of lat=%.6f deg lon=%.6f deg is not finite", what, lat / D, lon / D); continue;}
    if (std::fabs(w.latitude - lat) > 1e-11 || std::fabs(w.longitude - lon) > 1e-11)
      FAIL("[%s] round trip of (lat %.6f deg, lon %.6f deg): |dlat|=%.3e rad |dlon|=%.3e rad (tolerance 1e-11)", what, lat / D, lon / D, std::fabs(w.latitude - lat), std::fabs(w.longitude - lon));
  }
}

static void secant(double a, double b, double lat0, double lat1, double lat2, double lon0, double x0, double y0, std::mt19937 & rng, int npts)
{
  EarthEllipsoid ell(a, b);
  LambertConverter::SecantProjectionParameters sp{lon0, lat0, lat1, lat2, x0, y0};
  LambertConverter lc(sp, ell);
  char what[200]; snprintf(what, sizeof what, "secant lat1=%.4f lat2=%.4f lat0=%.4f deg e=%.5f", lat1 / D, lat2 / D, lat0 / D, ell.e);
  for (double lp : {lat1, lat2}) {
    Scale s = scales(lc, a, ell.e, lp, lon0 + 3 * D);
    if (!(std::fabs(s.k - 1) < 2e-6) || !(std::fabs(s.h - 1) < 2e-6)) FAIL("[%s] scale on the standard parallel %.4f deg is %.9f (parallel) / %.9f (meridian), expected 1", what, lp / D, s.k, s.h);
  }
  points(lc, what, a, ell.e, lat0, lon0, x0, y0, rng, npts);
}

static void tangent(double a, double b, double lat0, double k0, double lon0, double x0, double y0, std::mt19937 & rng, int npts)
{
  EarthEllipsoid ell(a, b);
  LambertConverter::TangentProjectionParameters tp{lat0, lon0, k0, x0, y0};
  LambertConverter lc(tp, ell);
  char what[200]; snprintf(what, sizeof what, "tangent lat0=%.4f deg k0=%.6f e=%.5f", lat0 / D, k0, ell.e);
  Scale s = scales(lc, a, ell.e, lat0, lon0 - 2 * D);
  if (!(std::fabs(s.k - k0) < 2e-6) || !(std::fabs(s.h - k0) < 2e-6)) FAIL("[%s] scale on the tangent parallel is %.9f / %.9f, expected k0", what, s.k, s.h);
  points(lc, what, a, ell.e, lat0, lon0, x0, y0, rng, npts);
}

int main(int argc, char ** argv)
{
  std::map<std::string, std::string> A;
  for (int i = 1; i < argc; ++i) { std::string a(argv[i]); auto p = a.find('='); if (p != std::string::npos) A[a.substr(0, p)] = a.substr(p + 1); }
  std::mt19937 rng(A.count("seed") ? (unsigned)atol(A["seed"].c_str()) : 0);
  const double a = 6378137.0;
  double es[] = {0.0, 0.0818191910428, 0.08248325676, 0.1, 0.03};
  // named zones: Lambert-93, CC42..CC50, Lambert I-IV (Clarke 1880 IGN, tangent form), and their southern mirror images
  secant(a, 6356752.3141, 46.5 * D, 44 * D, 49 * D, 3 * D, 700000, 6600000, rng, 60);
  for (int z = 42; z <= 50; ++z) secant(a, 6356752.3141, z * D, (z - 0.75) * D, (z + 0.75) * D, 3 * D, 1700000, (z - 41) * 1000000 + 200000, rng, 20);
  struct { double lat0, k0, y0; } L[] = {{55 * 0.9 * D, 0.99987734, 200000}, {52 * 0.9 * D, 0.99987742, 200000}, {49 * 0.9 * D, 0.99987750, 200000}, {46.85 * 0.9 * D, 0.99994471, 185861.369}};
  for (auto & z : L) { tangent(6378249.2, 6356515.0, z.lat0, z.k0, 2.33722917 * D, 600000, z.y0, rng, 40); tangent(6378249.2, 6356515.0, -z.lat0, z.k0, 2.33722917 * D, 600000, z.y0, rng, 40); }
  secant(a, 6356752.3141, -46.5 * D, -44 * D, -49 * D, 3 * D, 700000, 6600000, rng, 60);
  secant(a, 6356752.3141, -35 * D, -30 * D, -40 * D, -5 * D, 0, 0, rng, 60);
  for (int k = 0; k < 1500; ++k) {
    double e = es[rng() % 5], b = a * std::sqrt(1 - e * e);
    double sgn = (rng() & 1) ? 1 : -1;
    double mid = (15 + (double)(rng() % 50001) / 1000) * D, sep = (1 + (double)(rng() % 19001) / 1000) * D;
    double lat1 = mid - sep / 2, lat2 = mid + sep / 2;
    if (lat1 < 15 * D) { lat1 = 15 * D; lat2 = lat1 + sep; }
    if (lat2 > 75 * D) { lat2 = 75 * D; lat1 = lat2 - sep; }
    double lat0 = lat1 + (lat2 - lat1) * ((double)(rng() % 1001) / 1000);
    double lon0 = ((double)(rng() % 3000001) / 10000 - 150) * D;
    if (rng() & 1) std::swap(lat1, lat2);
    secant(a, b, sgn * lat0, sgn * lat1, sgn * lat2, lon0, (double)(rng() % 2000001) - 1e6, (double)(rng() % 8000001), rng, 12);
    tangent(a, b, sgn * mid, 0.99 + (double)(rng() % 10001) / 1e6, lon0, (double)(rng() % 2000001) - 1e6, (double)(rng() % 8000001), rng, 12);
  }
  if (fails) { printf("%d failing checks\n", fails); return 1; }
  printf("no failing input found: conformal, true scale on the parallels, origin and central meridian, inverse within 1e-11 rad on the property's domain\n");
  return 0;
}
