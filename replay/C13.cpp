// Native replay for C13: GridIndexMapping<double|float, 2|3> on directed extents (aligned, half-multiples, unaligned,
// symmetric maximal-range form) and a seeded search; every axis is checked against the property statement.
// Model values of a refuted VC (res_*, lo*_*, hi*_*, p*_*, range_*) are tried first when given (rational a/b accepted).
#include "romea_core_common/containers/grid/GridIndexMapping.hpp"
#include <map>
#include <string>
#include <random>
#include <cmath>
#include <cstdio>
#include <cstdlib>
using namespace romea::core;
static int fails = 0;
#define FAIL(...) do { if (fails < 10) { printf("FAILING-INPUT: "); printf(__VA_ARGS__); printf("\n"); } ++fails; } while (0)

template<typename S, size_t D>
static void check(const Eigen::Matrix<S, D, 1> & lo, const Eigen::Matrix<S, D, 1> & hi, S res, const Eigen::Matrix<S, D, 1> & p, bool range_form, const char * what)
{
  using G = GridIndexMapping<S, D>;
  G g = range_form ? G(hi[0], res) : G(Interval<S, D>(lo, hi), res);
  auto n = g.getNumberOfCellsAlongAxes();
  for (size_t a = 0; a < D; ++a) if (n[a] == 0 || n[a] > 20000000) { FAIL("%s: axis %zu has %zu cells (lo=%.9g hi=%.9g res=%.9g)", what, a, (size_t)n[a], (double)lo[a], (double)hi[a], (double)res); return; }
  auto idx = g.computeCellIndexes(p);
  S tol = std::is_same<S, float>::value ? S(2e-3) * std::max<S>(1, std::fabs(hi[0]) / res) * res * S(1e-3) + res * S(1e-3) : S(1e-9) * res + S(1e-9);
  for (size_t a = 0; a < D; ++a) {
    const std::vector<S> & tab = g.getCellCentersPositionAlong(a);
    if (tab.size() != n[a]) { FAIL("%s: axis %zu centre table has %zu entries for %zu cells", what, a, tab.size(), (size_t)n[a]); continue; }
    if (idx[a] >= n[a]) { FAIL("%s: extent [%.17g, %.17g] res %.17g: point %.17g maps to index %zu on axis %zu but there are only %zu cells", what, (double)lo[a], (double)hi[a], (double)res, (double)p[a], (size_t)idx[a], a, (size_t)n[a]); continue; }
    if (std::fabs(p[a] - tab[idx[a]]) > res / 2 + tol) FAIL("%s: extent [%.17g, %.17g] res %.17g axis %zu: point %.17g is %.9g from the centre %.17g of its cell %zu (> res/2)", what, (double)lo[a], (double)hi[a], (double)res, a, (double)p[a], (double)std::fabs(p[a] - tab[idx[a]]), (double)tab[idx[a]], (size_t)idx[a]);
    if (tab[0] - res / 2 > lo[a] + tol) FAIL("%s: res %.17g axis %zu: first cell [%.17g..] does not cover the lower bound %.17g", what, (double)res, a, (double)(tab[0] - res / 2), (double)lo[a]);
    if (tab[n[a] - 1] + res / 2 < hi[a] - tol) FAIL("%s: res %.17g axis %zu: last cell (centre %.17g) does not cover the upper bound %.17g (%zu cells)", what, (double)res, a, (double)tab[n[a] - 1], (double)hi[a], (size_t)n[a]);
    size_t step = std::max<size_t>(1, n[a] / 50);
    for (size_t i = 0; i < n[a]; i += step) {
      Eigen::Matrix<S, D, 1> c = p; c[a] = tab[i];
      typename G::CellIndexes ci = idx; ci[a] = i;
      if (g.computeCellIndexes(c)[a] != i) FAIL("%s: res %.17g axis %zu: centre of cell %zu (%.17g) maps to index %zu", what, (double)res, a, i, (double)tab[i], (size_t)g.computeCellIndexes(c)[a]);
      if (g.computeCellCenterPosition(ci)[a] != tab[i]) FAIL("%s: computeCellCenterPosition differs from the table on axis %zu cell %zu", what, a, i);
      if (i + 1 < n[a] && std::fabs((tab[i + 1] - tab[i]) - res) > tol) FAIL("%s: axis %zu: centres %zu and %zu are %.17g apart, resolution %.17g", what, a, i, i + 1, (double)(tab[i + 1] - tab[i]), (double)res);
    }
  }
}

template<typename S, size_t D>
static void family(std::mt19937 & rng, int count, const char * what)
{
  using V = Eigen::Matrix<S, D, 1>;
  S ress[] = {S(1), S(0.5), S(0.1), S(0.25), S(2), S(10), S(0.001), S(0.3)};
  for (int k = 0; k < count; ++k) {
    S res = (k < 40) ? ress[k % 8] : S(0.001) + S(rng() % 100000) / S(10000);
    V lo, hi, p;
    int kind = k % 5;
    for (size_t a = 0; a < D; ++a) {
      long m0 = (long)(rng() % 41) - 20, m1 = m0 + (long)(rng() % 20);
      switch (kind) {
        case 0: lo[a] = m0 * res; hi[a] = m1 * res; break;                          // exact multiples
        case 1: lo[a] = (m0 + S(0.5)) * res; hi[a] = (m1 + S(0.5)) * res; break;    // half multiples
        case 2: lo[a] = (m0 + S(rng() % 1000) / 1000) * res; hi[a] = (m1 + 1 + S(rng() % 1000) / 1000) * res; break;
        case 3: lo[a] = -S(rng() % 1000) / 10; hi[a] = S(rng() % 1000) / 10; break;
        default: lo[a] = S(rng() % 2000) / 10 - 100; hi[a] = lo[a] + S(rng() % 500) / 10; break;
      }
      if ((hi[a] - lo[a]) / res > 2e5) hi[a] = lo[a] + res * 1000;
    }
    bool range_form = (k % 7 == 3);
    if (range_form) { S r = std::fabs(hi[0]) + (kind == 1 ? res / 2 : 0); for (size_t a = 0; a < D; ++a) { lo[a] = -r; hi[a] = r; } }
    for (int q = 0; q < 12; ++q) {
      for (size_t a = 0; a < D; ++a) {
        switch (q) { case 0: p[a] = lo[a]; break; case 1: p[a] = hi[a]; break; case 2: p[a] = (q + a) % 2 ? lo[a] : hi[a]; break;
          case 3: p[a] = std::nextafter(hi[a], lo[a]); break; case 4: p[a] = std::nextafter(lo[a], hi[a]); break;
          case 5: p[a] = lo[a] + res * std::floor((hi[a] - lo[a]) / res / 2); break;
          default: p[a] = lo[a] + (hi[a] - lo[a]) * S(rng() % 10001) / 10000; }
        if (p[a] < lo[a]) p[a] = lo[a]; if (p[a] > hi[a]) p[a] = hi[a];
      }
      check<S, D>(lo, hi, res, p, range_form, what);
    }
  }
}

static double val(const std::string & s) { auto p = s.find('/'); if (p == std::string::npos) return atof(s.c_str()); return atof(s.substr(0, p).c_str()) / atof(s.substr(p + 1).c_str()); }

int main(int argc, char ** argv)
{
  std::map<std::string, std::string> A;
  for (int i = 1; i < argc; ++i) { std::string a(argv[i]); auto p = a.find('='); if (p != std::string::npos) A[a.substr(0, p)] = a.substr(p + 1); }
  std::mt19937 rng(A.count("seed") ? (unsigned)atol(A["seed"].c_str()) : 0);
  for (const char * form : {"interval", "range"}) {
    std::string f(form);
    if (A.count("res_2" + f)) {
      Eigen::Vector2d lo, hi, p; double res = val(A["res_2" + f]);
      bool rf = f == "range";
      for (int a = 0; a < 2; ++a) {
        std::string sa = std::to_string(a);
        double r = A.count("range_2") ? val(A["range_2"]) : 1;
        lo[a] = rf ? -r : (A.count("lo" + sa + "_2" + f) ? val(A["lo" + sa + "_2" + f]) : 0);
        hi[a] = rf ? r : (A.count("hi" + sa + "_2" + f) ? val(A["hi" + sa + "_2" + f]) : lo[a] + 1);
        p[a] = A.count("p" + sa + "_2" + f) ? val(A["p" + sa + "_2" + f]) : hi[a];
        if (p[a] < lo[a]) p[a] = lo[a]; if (p[a] > hi[a]) p[a] = hi[a];
      }
      if (res > 1e-6 && (hi[0] - lo[0]) / res < 1e6 && (hi[1] - lo[1]) / res < 1e6) check<double, 2>(lo, hi, res, p, rf, "counterexample of the verifier");
    }
  }
  family<double, 2>(rng, 400, "double 2-D"); family<double, 3>(rng, 200, "double 3-D");
  family<float, 2>(rng, 200, "float 2-D"); family<float, 3>(rng, 100, "float 3-D");
  if (fails) { printf("%d failing checks\n", fails); return 1; }
  printf("no failing input found: aligned, half-multiple, unaligned and symmetric extents agree with the property (double and float)\n");
  return 0;
}
