// Native replay for C01: ECEF <-> geodetic round trips over the property's quantifier (latitudes to +-89.9 deg, both ends of
// the antimeridian, heights -11..100 km, several ellipsoids incl. the sphere) with the property's tolerances, plus the
// geometric characterisation of the forward map (point on the ellipsoid normal at height h).
#include "romea_core_common/geodesy/ECEFConverter.hpp"
#include <map>
#include <string>
#include <random>
#include <cmath>
#include <cstdio>
#include <cstdlib>
using namespace romea::core;
static int fails = 0;
#define FAIL(...) do { if (fails < 4000) { printf("FAILING-INPUT: "); printf(__VA_ARGS__); printf("\n"); } ++fails; } while (0)
static double val(const std::string & s) { if (s.find("root-obj") != std::string::npos) return 0.5; auto p = s.find('/'); if (p == std::string::npos) return atof(s.c_str()); return atof(s.substr(0, p).c_str()) / atof(s.substr(p + 1).c_str()); }

static void one(const EarthEllipsoid & ell, const char * en, double lat, double lon, double h)
{
  ECEFConverter c(ell);
  GeodeticCoordinates g = makeGeodeticCoordinates(lat, lon, h);
  Eigen::Vector3d P = c.toECEF(g);
  // forward map: foot point + h * normal, foot point on the ellipsoid (independent long-double evaluation)
  long double a = ell.a, b = ell.b, e2 = (a * a - b * b) / (a * a);
  long double sl = sinl(lat), cl = cosl(lat), N = a / sqrtl(1 - e2 * sl * sl);
  long double X = (N + h) * cl * cosl(lon), Y = (N + h) * cl * sinl(lon), Z = (N * (1 - e2) + h) * sl;
  if (std::fabs((double)(P[0] - X)) > 1e-3 || std::fabs((double)(P[1] - Y)) > 1e-3 || std::fabs((double)(P[2] - Z)) > 1e-3)
    FAIL("[%s] toECEF(lat=%.10g, lon=%.10g, h=%.6g) = (%.4f,%.4f,%.4f), point on the normal is (%.4Lf,%.4Lf,%.4Lf)", en, lat, lon, h, P[0], P[1], P[2], X, Y, Z);
  GeodeticCoordinates back = c.toWGS84(P);
  double dlon = std::fabs(back.longitude - lon); if (dlon > M_PI) dlon = std::fabs(dlon - 2 * M_PI);
  if (!std::isfinite(back.latitude) || !std::isfinite(back.longitude) || !std::isfinite(back.altitude)) { FAIL("[%s] toWGS84 of lat=%.10g lon=%.10g h=%.6g is not finite", en, lat, lon, h); return; }
  if (std::fabs(back.latitude - lat) > 1e-9 || dlon > 1e-9 || std::fabs(back.altitude - h) > 1e-3)
    FAIL("[%s] lat=%.10g lon=%.10g h=%.6g -> ECEF -> geodetic: dLat=%.3g rad dLon=%.3g rad dAlt=%.6g m", en, lat, lon, h, back.latitude - lat, dlon, back.altitude - h);
  if (back.latitude < -M_PI / 2 || back.latitude > M_PI / 2 || back.longitude < -M_PI || back.longitude > M_PI) FAIL("[%s] result out of range: lat=%.17g lon=%.17g", en, back.latitude, back.longitude);
  Eigen::Vector3d P2 = c.toECEF(back);
  if ((P2 - P).norm() > 1e-3) FAIL("[%s] ECEF -> geodetic -> ECEF moves the point by %.6g m (lat=%.10g lon=%.10g h=%.6g)", en, (P2 - P).norm(), lat, lon, h);
}

int main(int argc, char ** argv)
{
  std::map<std::string, std::string> A;
  for (int i = 1; i < argc; ++i) { std::string a(argv[i]); auto p = a.find('='); if (p != std::string::npos) A[a.substr(0, p)] = a.substr(p + 1); }
  std::mt19937 rng(A.count("seed") ? (unsigned)atol(A["seed"].c_str()) : 0);
  struct { const char * n; double a, b; } E[] = {{"GRS80", 6378137.0, 6356752.3141}, {"Clarke1880IGN", 6378249.2, 6356515.0}, {"International1924", 6378388.0, 6356911.9461}, {"sphere", 6378137.0, 6378137.0}, {"f=1/290", 6384515.0, 6384515.0 * (1 - 1 / 290.0)}};
  const double D = M_PI / 180;
  if (A.count("lat") && A.count("lon")) { double la = val(A["lat"]), lo = val(A["lon"]), hh = A.count("h") ? val(A["h"]) : 0; if (std::fabs(la) <= 89.9 * D && std::fabs(lo) <= M_PI && hh >= -11000 && hh <= 100000) one(EarthEllipsoid(E[0].a, E[0].b), "GRS80(model values)", la, lo, hh); }
  double lats[] = {-89.9, -89.5, -80, -45, -1e-7, 0, 1e-7, 30, 45.5, 61.17, 80, 89, 89.5, 89.8, 89.9};
  double lons[] = {-180, -179.999999, -135, -90, -1e-9, 0, 1e-9, 45, 90, 135, 179.999999, 180};
  double hs[] = {-11000, -100, 0, 250.5, 9000, 100000};
  for (auto & e : E) { EarthEllipsoid ell(e.a, e.b); for (double la : lats) for (double lo : lons) for (double h : hs) one(ell, e.n, la * D, lo * D, h); }
  for (int k = 0; k < 3000; ++k) { auto & e = E[rng() % 5]; one(EarthEllipsoid(e.a, e.b), e.n, ((double)(rng() % 1798001) / 10000 - 89.9) * D, ((double)(rng() % 3600001) / 10000 - 180) * D, (double)(rng() % 111001) - 11000); }
  if (fails) { printf("%d failing checks\n", fails); return 1; }
  printf("no failing input found: forward map and round trips within 1e-9 rad / 1 mm on the property's domain\n");
  return 0;
}
