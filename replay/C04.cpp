// Native replay for C04: FindRigidTransformationBySVD on exact rigid motions of generic, coplanar, nearly coplanar and clustered point
// sets (2-D and 3-D, Cartesian double): the linear part must be a proper rotation (orthonormal, det +1) and every source point must be
// mapped onto its target (1e-9 relative), with identity, permuted and subset correspondences.
#include "romea_core_common/transform/estimation/FindRigidTransformationBySVD.hpp"
#include "romea_core_common/math/EulerAngles.hpp"
#include <Eigen/Geometry>
#include <algorithm>
#include <cstdio>
#include <map>
#include <random>
#include <string>
using namespace romea::core;
static int fails = 0;
#define FAIL(...) do { if (fails < 20) { printf("FAILING-INPUT: "); printf(__VA_ARGS__); printf("\n"); } ++fails; } while (0)

static double u01(std::mt19937 & r) { return (double)(r() % 2000001) / 1000000.0 - 1.0; }

template<int D>
static void check(const char * what, const Eigen::Matrix<double, D + 1, D + 1> & H, const PointSet<Eigen::Matrix<double, D, 1>> & src, const PointSet<Eigen::Matrix<double, D, 1>> & dst, const std::vector<Correspondence> & c, double scale)
{
  Eigen::Matrix<double, D, D> R = H.template block<D, D>(0, 0);
  double det = R.determinant(), orth = (R.transpose() * R - Eigen::Matrix<double, D, D>::Identity()).norm();
  if (!(orth < 1e-9)) FAIL("%s: linear part is not orthonormal (|R^T R - I| = %.3g)", what, orth);
  if (!(std::fabs(det - 1) < 1e-9)) FAIL("%s: determinant of the linear part is %.9f, a proper rotation has +1 (%zu correspondences)", what, det, c.size());
  double err = 0;
  for (auto & k : c) err = std::max(err, (R * src[k.sourcePointIndex] + H.template block<D, 1>(0, D) - dst[k.targetPointIndex]).norm());
  if (!(err <= 1e-9 * (1 + scale))) FAIL("%s: a source point is mapped %.3g away from its target (scale %.3g)", what, err, scale);
  for (int j = 0; j < D; ++j) if (H(D, j) != 0) FAIL("%s: last row is not (0,...,0,1)", what);
  if (H(D, D) != 1) FAIL("%s: last row is not (0,...,0,1)", what);
}

static void trial3(std::mt19937 & rng, int kind)
{
  Eigen::Matrix3d R = eulerAnglesToRotation3D(Eigen::Vector3d(u01(rng) * 3.14, u01(rng) * 1.5, u01(rng) * 3.14));
  Eigen::Vector3d T(u01(rng) * 10, u01(rng) * 10, u01(rng) * 10);
  Eigen::Vector3d a(u01(rng), u01(rng), u01(rng)), b(u01(rng), u01(rng), u01(rng)), c0(u01(rng) * 10, u01(rng) * 10, u01(rng) * 10), nrm = a.cross(b);
  if (nrm.norm() < 0.1) return;
  int n = 3 + rng() % 40;
  PointSet<Eigen::Vector3d> src, dst;
  for (int i = 0; i < n; ++i) {
    double u = u01(rng) * 10, v = u01(rng) * 10, w = kind == 0 ? u01(rng) * 10 : (kind == 1 ? 0.0 : u01(rng) * 1e-6);
    Eigen::Vector3d p = c0 + u * a + v * b + w * nrm.normalized();
    if (kind == 3) p = c0 + (i % 3 == 0 ? a : (i % 3 == 1 ? b : Eigen::Vector3d(a + b))) + 1e-3 * Eigen::Vector3d(u01(rng), u01(rng), u01(rng));
    src.push_back(p); dst.push_back(R * p + T);
  }
  // not all collinear
  Eigen::Matrix3d S = Eigen::Matrix3d::Zero(); Eigen::Vector3d m = Eigen::Vector3d::Zero(); for (auto & p : src) m += p; m /= n; for (auto & p : src) S += (p - m) * (p - m).transpose();
  Eigen::SelfAdjointEigenSolver<Eigen::Matrix3d> es(S); if (es.eigenvalues()[1] < 1e-6 * es.eigenvalues()[2]) return;
  const char * names[] = {"3D generic", "3D coplanar", "3D nearly coplanar", "3D clustered"};
  std::vector<Correspondence> id; for (int i = 0; i < n; ++i) id.emplace_back(i, i);
  FindRigidTransformationBySVD<Eigen::Vector3d> f;
  check<3>(names[kind], f.find(src, dst), src, dst, id, 20);
  std::vector<Correspondence> perm = id; std::shuffle(perm.begin(), perm.end(), rng);
  check<3>(names[kind], f.find(src, dst, perm), src, dst, perm, 20);
}

static void trial2(std::mt19937 & rng)
{
  double th = u01(rng) * 3.14; Eigen::Matrix2d R; R << std::cos(th), -std::sin(th), std::sin(th), std::cos(th);
  Eigen::Vector2d T(u01(rng) * 10, u01(rng) * 10);
  int n = 3 + rng() % 40;
  PointSet<Eigen::Vector2d> src, dst;
  for (int i = 0; i < n; ++i) { Eigen::Vector2d p(u01(rng) * 10, u01(rng) * 10); src.push_back(p); dst.push_back(R * p + T); }
  std::vector<Correspondence> id; for (int i = 0; i < n; ++i) id.emplace_back(i, i);
  FindRigidTransformationBySVD<Eigen::Vector2d> f;
  check<2>("2D generic", f.find(src, dst), src, dst, id, 20);
  std::vector<Correspondence> sub(id.begin(), id.begin() + std::max(3, n / 2));
  check<2>("2D subset", f.find(src, dst, sub), src, dst, sub, 20);
}

// a pair of preconditioned sets reused for a smaller problem: the copy has the size of the new set and the estimate from the preconditioned
// sets maps the new source points onto the new targets
static void reuse_preconditioned(std::mt19937 & rng)
{
  PreconditionedPointSet<Eigen::Vector2d> ps, pt;
  for (int n : {60, 25, 40, 7}) {
    double th = u01(rng) * 3.14; Eigen::Matrix2d R; R << std::cos(th), -std::sin(th), std::sin(th), std::cos(th);
    Eigen::Vector2d T(u01(rng) * 10, u01(rng) * 10);
    PointSet<Eigen::Vector2d> src, dst;
    for (int i = 0; i < n; ++i) { Eigen::Vector2d p(u01(rng) * 10, u01(rng) * 10); src.push_back(p); dst.push_back(R * p + T); }
    ps.compute(src, 0.1); pt.compute(dst, 0.1);
    if (ps.get().size() != src.size() || pt.get().size() != dst.size()) FAIL("PreconditionedPointSet reused for %d points (after a larger set): get() has %zu / %zu points", n, ps.get().size(), pt.get().size());
    FindRigidTransformationBySVD<Eigen::Vector2d> f;
    Eigen::Matrix3d H = f.find(ps, pt);
    std::vector<Correspondence> id; for (int i = 0; i < n; ++i) id.emplace_back(i, i);
    check<2>("2D preconditioned sets, object reused", H, src, dst, id, 20);
  }
}

// noisy correspondences: the estimate must be the least-squares optimal rigid motion (compared with Eigen::umeyama without scaling, an
// independent Kabsch/Umeyama implementation) and must not depend on the order of the correspondence list
template<int D>
static void noisy(std::mt19937 & rng)
{
  using V = Eigen::Matrix<double, D, 1>;
  Eigen::Matrix<double, D, D> R;
  if (D == 2) { double th = u01(rng) * 3.14; R(0, 0) = std::cos(th); R(0, 1) = -std::sin(th); R(1, 0) = std::sin(th); R(1, 1) = std::cos(th); }
  else { Eigen::Matrix3d R3 = eulerAnglesToRotation3D(Eigen::Vector3d(u01(rng) * 3.14, u01(rng) * 1.5, u01(rng) * 3.14)); for (int i = 0; i < D; ++i) for (int j = 0; j < D; ++j) R(i, j) = R3(i, j); }
  V T; for (int i = 0; i < D; ++i) T[i] = u01(rng) * 10;
  int n = 4 + rng() % 40;
  PointSet<V> src, dst;
  Eigen::Matrix<double, D, Eigen::Dynamic> ms(D, n), md(D, n);
  for (int i = 0; i < n; ++i) {
    V p, e; for (int k = 0; k < D; ++k) { p[k] = u01(rng) * 10; e[k] = u01(rng) * 0.05; }
    src.push_back(p); dst.push_back(R * p + T + e); ms.col(i) = p; md.col(i) = dst.back();
  }
  Eigen::Matrix<double, D + 1, D + 1> ref = Eigen::umeyama(ms, md, false);
  std::vector<Correspondence> id; for (int i = 0; i < n; ++i) id.emplace_back(i, i);
  FindRigidTransformationBySVD<V> f;
  Eigen::Matrix<double, D + 1, D + 1> H = f.find(src, dst, id);
  if (!((H - ref).norm() <= 1e-9 * 20)) FAIL("%dD noisy, %d points: estimate differs from the independent Kabsch/Umeyama solution by %.3g", D, n, (H - ref).norm());
  std::vector<Correspondence> perm = id; std::shuffle(perm.begin(), perm.end(), rng);
  Eigen::Matrix<double, D + 1, D + 1> Hp = f.find(src, dst, perm);
  if (!((Hp - H).norm() <= 1e-9 * 20)) FAIL("%dD noisy, %d points: the result depends on the order of the correspondences (difference %.3g)", D, n, (Hp - H).norm());
  Eigen::Matrix<double, D + 1, D + 1> Hn = f.find(src, dst);
  if (!((Hn - H).norm() <= 1e-9 * 20)) FAIL("%dD noisy, %d points: find(src, dst) differs from find with the identity correspondences by %.3g", D, n, (Hn - H).norm());
}

int main(int argc, char ** argv)
{
  std::map<std::string, std::string> A;
  for (int i = 1; i < argc; ++i) { std::string a(argv[i]); auto p = a.find('='); if (p != std::string::npos) A[a.substr(0, p)] = a.substr(p + 1); }
  std::mt19937 rng(A.count("seed") ? (unsigned)atol(A["seed"].c_str()) : 0);
  for (int k = 0; k < 300; ++k) { trial3(rng, k % 4); trial2(rng); }
  for (int k = 0; k < 5; ++k) reuse_preconditioned(rng);
  for (int k = 0; k < 60; ++k) { noisy<3>(rng); noisy<2>(rng); }
  if (fails) { printf("%d failing checks\n", fails); return 1; }
  printf("no failing input found: proper rotation and exact recovery on generic, coplanar, nearly coplanar and clustered sets; noisy sets agree with Umeyama and do not depend on the order\n");
  return 0;
}
