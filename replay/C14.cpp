// Native replay for C14: ray casting on 2-D / 3-D grids, double and float: chain length, first/last cell, face adjacency,
// in-bounds, every listed cell crossed by the segment, and independence from casts performed earlier with the same object.
#include "romea_core_common/containers/grid/RayTracing.hpp"
#include <map>
#include <string>
#include <random>
#include <cmath>
#include <cstdio>
#include <cstdlib>
using namespace romea::core;
static int fails = 0;
#define FAIL(...) do { if (fails < 10) { printf("FAILING-INPUT: "); printf(__VA_ARGS__); printf("\n"); } ++fails; } while (0)

template<typename S, size_t D>
static bool segment_crosses_cell(const GridIndexMapping<S, D> & g, const Eigen::Matrix<size_t, D, 1> & c, const Eigen::Matrix<S, D, 1> & o, const Eigen::Matrix<S, D, 1> & e, S tol)
{
  // slab test of the segment o + t (e - o), t in [0,1], against the closed cell enlarged by tol
  Eigen::Matrix<S, D, 1> ctr = g.computeCellCenterPosition(c);
  double t0 = 0, t1 = 1;
  for (size_t a = 0; a < D; ++a) {
    double lo = ctr[a] - g.getCellResolution() / 2 - tol, hi = ctr[a] + g.getCellResolution() / 2 + tol, d = e[a] - o[a];
    if (std::fabs(d) < 1e-300) { if (o[a] < lo || o[a] > hi) return false; continue; }
    double ta = (lo - o[a]) / d, tb = (hi - o[a]) / d; if (ta > tb) std::swap(ta, tb);
    t0 = std::max(t0, ta); t1 = std::min(t1, tb);
  }
  return t0 <= t1;
}

template<typename S, size_t D>
static void one(RayCasting<S, D> & rc, const GridIndexMapping<S, D> & g, const Eigen::Matrix<S, D, 1> & o, const Eigen::Matrix<S, D, 1> & e, const char * what, bool fresh_compare)
{
  auto ray = rc.cast(o, e);
  auto oc = g.computeCellIndexes(o), ec = g.computeCellIndexes(e);
  size_t l1 = 0; for (size_t a = 0; a < D; ++a) l1 += oc[a] > ec[a] ? oc[a] - ec[a] : ec[a] - oc[a];
  S tol = std::is_same<S, float>::value ? S(2e-3) : S(1e-7);
  char buf[200]; snprintf(buf, sizeof buf, "%s %zuD %s origin (%.9g,%.9g) end (%.9g,%.9g) res %.6g", what, D, std::is_same<S, float>::value ? "float" : "double", (double)o[0], (double)o[1], (double)e[0], (double)e[1], (double)g.getCellResolution());
  if (ray.size() != l1 + 1) { FAIL("%s: %zu entries, L1 distance between origin and end cells + 1 = %zu (origin cell %zu,%zu,%zu end cell %zu,%zu,%zu)", buf, ray.size(), l1 + 1, (size_t)oc[0], (size_t)oc[1], (size_t)oc[D - 1], (size_t)ec[0], (size_t)ec[1], (size_t)ec[D - 1]); return; }
  if (ray[0] != oc) FAIL("%s: first entry is not the origin cell", buf);
  auto n = g.getNumberOfCellsAlongAxes();
  for (size_t k = 0; k < ray.size(); ++k) {
    for (size_t a = 0; a < D; ++a) if (ray[k][a] >= n[a]) { FAIL("%s: entry %zu leaves the grid (index %zu of %zu on axis %zu)", buf, k, (size_t)ray[k][a], (size_t)n[a], a); return; }
    if (k) { size_t mv = 0; for (size_t a = 0; a < D; ++a) mv += ray[k][a] > ray[k - 1][a] ? ray[k][a] - ray[k - 1][a] : ray[k - 1][a] - ray[k][a]; if (mv != 1) { FAIL("%s: step %zu is not a move to a face-adjacent cell (L1 move = %zu)", buf, k, mv); return; } }
    if (!segment_crosses_cell<S, D>(g, ray[k], o, e, tol * g.getCellResolution() + tol)) { FAIL("%s: entry %zu (%zu,%zu) is not crossed by the segment", buf, k, (size_t)ray[k][0], (size_t)ray[k][1]); return; }
  }
  Eigen::Matrix<S, D, 1> ctr = g.computeCellCenterPosition(ray.back());
  for (size_t a = 0; a < D; ++a) if (std::fabs(e[a] - ctr[a]) > g.getCellResolution() / 2 + tol * g.getCellResolution() + tol) { FAIL("%s: last cell (%zu,%zu) does not contain the end point (end cell (%zu,%zu))", buf, (size_t)ray.back()[0], (size_t)ray.back()[1], (size_t)ec[0], (size_t)ec[1]); break; }
  if (fresh_compare) { GridIndexMapping<S, D> g2 = g; RayCasting<S, D> f(&g2); auto r2 = f.cast(o, e); bool same = r2.size() == ray.size(); for (size_t k = 0; same && k < ray.size(); ++k) same = r2[k] == ray[k]; if (!same) FAIL("%s: result differs from the one of a freshly constructed caster (history dependence)", buf); }
}

template<typename S, size_t D> static void family(std::mt19937 & rng, int count)
{
  using V = Eigen::Matrix<S, D, 1>;
  for (int k = 0; k < count; ++k) {
    S res = (k % 3 == 0) ? S(0.1) : (k % 3 == 1 ? S(1) : S(0.01) + S(rng() % 100) / 100);
    S half = res * S(20 + rng() % (D == 2 ? 200 : 40));
    GridIndexMapping<S, D> g(half, res);
    RayCasting<S, D> reused(&g);
    V prev_o = V::Zero(), prev_e = V::Constant(half / 2);
    for (int q = 0; q < 20; ++q) {
      V o, e;
      for (size_t a = 0; a < D; ++a) { o[a] = (S(rng() % 20001) / 10000 - 1) * half * S(0.98); e[a] = (S(rng() % 20001) / 10000 - 1) * half * S(0.98); }
      int kind = q % 10;
      if (kind == 1) e[0] = o[0];                                   // axis-aligned (step 0 along x)
      if (kind == 2) { e = o; e[D - 1] += res * 7; if (e[D - 1] > half * S(0.98)) e[D - 1] = o[D - 1] - res * 7; }   // axis-aligned, other axes fixed
      if (kind == 3) { for (size_t a = 0; a < D; ++a) e[a] = o[a] + res * S(5.5); if (e.maxCoeff() > half * S(0.98)) for (size_t a = 0; a < D; ++a) e[a] = o[a] - res * S(5.5); }  // diagonal
      if (kind == 4) e = o;                                         // coincident
      if (kind == 6) {                                              // grazing: long run along one axis, the other axes cross one cell border by a hair
        size_t major = rng() % D;
        for (size_t a = 0; a < D; ++a) {
          if (a == major) { o[a] = -half * S(0.9); e[a] = half * S(0.9); if (rng() & 1) std::swap(o[a], e[a]); continue; }
          // a cell border along this axis, taken from the grid itself: half-way between two neighbouring cell centres
          Eigen::Matrix<S, D, 1> probe = Eigen::Matrix<S, D, 1>::Zero(); probe[a] = (S(rng() % 20001) / 10000 - 1) * half * S(0.9);
          auto ci = g.computeCellIndexes(probe); auto cj = ci; cj[a] += 1;
          S border = (g.computeCellCenterPosition(ci)[a] + g.computeCellCenterPosition(cj)[a]) / 2;
          S eps = res * (std::is_same<S, float>::value ? S(1e-4) : S(1e-10));
          o[a] = border - eps; e[a] = border + eps; if (rng() & 1) std::swap(o[a], e[a]);
        }
      }
      if (kind == 5) { for (size_t a = 0; a < D; ++a) { o[a] = std::floor(o[a] / res) * res + res / 4; e[a] = std::floor(e[a] / res) * res + res * 3 / 4; } }
      // the outermost layers of cells: an end point / origin next to the upper bound, next to the lower bound, and on the bound itself
      if (kind == 7) { size_t a = rng() % D; e[a] = half * S(0.9995); if (rng() & 1) o[(a + 1) % D] = half * S(0.9995); }
      if (kind == 8) { size_t a = rng() % D; o[a] = half * S(0.9995); if (rng() & 1) e[a] = -half * S(0.9995); }
      if (kind == 9) { for (size_t a = 0; a < D; ++a) { o[a] = (rng() & 1) ? half : -half; } if (rng() & 1) e = -o; }
      if (kind >= 7) { if (e.maxCoeff() > half || e.minCoeff() < -half || o.maxCoeff() > half || o.minCoeff() < -half) continue; }
      else
      if (e.maxCoeff() > half * S(0.98) || e.minCoeff() < -half * S(0.98) || o.maxCoeff() > half * S(0.98) || o.minCoeff() < -half * S(0.98)) continue;   // both points inside the extent
      one<S, D>(reused, g, o, e, "reused caster", true);
      { RayCasting<S, D> fresh(&g); one<S, D>(fresh, g, o, e, "fresh caster", false); }
    }
  }
}

int main(int argc, char ** argv)
{
  std::map<std::string, std::string> A;
  for (int i = 1; i < argc; ++i) { std::string a(argv[i]); auto p = a.find('='); if (p != std::string::npos) A[a.substr(0, p)] = a.substr(p + 1); }
  std::mt19937 rng(A.count("seed") ? (unsigned)atol(A["seed"].c_str()) : 0);
  family<double, 2>(rng, 60); family<double, 3>(rng, 30); family<float, 2>(rng, 30); family<float, 3>(rng, 15);
  if (fails) { printf("%d failing checks\n", fails); return 1; }
  printf("no failing input found: chains are connected, in bounds, cross the segment, end in the end cell and do not depend on earlier casts\n");
  return 0;
}
