// Native replay for C10: executable statement of the property on directed and seeded inputs (double and float):
// normalisers, planar pair, angles<->rotation<->quaternion, SmartRotation3D, polar / spherical round trips.
// Model values of a refuted VC (roll, pitch, yaw, theta, v, px, py, q_0..2, ...) are tried first when present.
#include "romea_core_common/math/EulerAngles.hpp"
#include "romea_core_common/transform/SmartRotation3D.hpp"
#include "romea_core_common/coordinates/PolarCoordinates.hpp"
#include "romea_core_common/coordinates/SphericalCoordinates.hpp"
#include <map>
#include <string>
#include <random>
#include <cmath>
#include <cstdio>
#include <cstdlib>
using namespace romea::core;
static int fails = 0;
#define FAIL(...) do { if (fails < 12) { printf("FAILING-INPUT: "); printf(__VA_ARGS__); printf("\n"); } ++fails; } while (0)
static double val(const std::string & s) { if (s.find("root-obj") != std::string::npos) return 0.4330127; auto p = s.find('/'); if (p == std::string::npos) return atof(s.c_str()); return atof(s.substr(0, p).c_str()) / atof(s.substr(p + 1).c_str()); }
static double angdiff(double a, double b) { double d = std::fmod(a - b, 2 * M_PI); if (d > M_PI) d -= 2 * M_PI; if (d < -M_PI) d += 2 * M_PI; return std::fabs(d); }

template<typename S> static void euler_case(S roll, S pitch, S yaw, S tol)
{
  using V3 = Eigen::Matrix<S, 3, 1>; using M3 = Eigen::Matrix<S, 3, 3>;
  V3 ang(roll, pitch, yaw);
  M3 R = eulerAnglesToRotation3D(ang);
  M3 Rref = (Eigen::AngleAxis<S>(yaw, V3::UnitZ()) * Eigen::AngleAxis<S>(pitch, V3::UnitY()) * Eigen::AngleAxis<S>(roll, V3::UnitX())).toRotationMatrix();
  if ((R - Rref).norm() > tol) FAIL("eulerAnglesToRotation3D(%g,%g,%g) differs from Rz*Ry*Rx by %g", (double)roll, (double)pitch, (double)yaw, (double)(R - Rref).norm());
  if ((R.transpose() * R - M3::Identity()).norm() > tol || std::fabs(R.determinant() - 1) > tol) FAIL("eulerAnglesToRotation3D(%g,%g,%g) is not a proper rotation", (double)roll, (double)pitch, (double)yaw);
  V3 back = rotation3DToEulerAngles(R);
  if (angdiff(back[0], roll) > tol || angdiff(back[1], pitch) > tol || angdiff(back[2], yaw) > tol) FAIL("angles (%g,%g,%g) -> rotation -> angles gives (%g,%g,%g)", (double)roll, (double)pitch, (double)yaw, (double)back[0], (double)back[1], (double)back[2]);
  M3 R2 = eulerAnglesToRotation3D(back);
  if ((R2 - R).norm() > tol) FAIL("rotation -> angles -> rotation differs by %g at angles (%g,%g,%g)", (double)(R2 - R).norm(), (double)roll, (double)pitch, (double)yaw);
  Eigen::Quaternion<S> q = eulerAnglesToQuaternion(ang);
  for (S sc : {S(1), S(0.5), S(3)}) {
    Eigen::Quaternion<S> qs(q.w() * sc, q.x() * sc, q.y() * sc, q.z() * sc);
    V3 bq = quaternionToEulerAngles(qs);
    if (angdiff(bq[0], roll) > tol || angdiff(bq[1], pitch) > tol || angdiff(bq[2], yaw) > tol) FAIL("angles (%g,%g,%g) -> quaternion (scaled by %g) -> angles gives (%g,%g,%g)", (double)roll, (double)pitch, (double)yaw, (double)sc, (double)bq[0], (double)bq[1], (double)bq[2]);
  }
  if (std::is_same<S, double>::value) {
    // re-initialisation of a used object, including angles that are exactly zero or unchanged
    static SmartRotation3D reused(0.3, 0.2, 0.5);
    for (int variant = 0; variant < 4; ++variant) {
      double a0 = variant == 1 ? 0.0 : (double)roll, a1 = variant == 2 ? 0.0 : (double)pitch, a2 = variant == 3 ? 0.0 : (double)yaw;
      reused.init(a0, a1, a2);
      Eigen::Matrix3d want = eulerAnglesToRotation3D(Eigen::Vector3d(a0, a1, a2));
      if ((reused.R() - want).norm() > tol) FAIL("SmartRotation3D re-initialised with init(%g,%g,%g): R() differs from eulerAnglesToRotation3D by %g", a0, a1, a2, (reused.R() - want).norm());
    }
    SmartRotation3D sr(roll, pitch, yaw);
    if ((sr.R() - R.template cast<double>()).norm() > tol) FAIL("SmartRotation3D(%g,%g,%g).R() differs from eulerAnglesToRotation3D by %g", (double)roll, (double)pitch, (double)yaw, (sr.R() - R.template cast<double>()).norm());
  }
}

// toSpherical<float> does not instantiate (SphericalCoordinates.hpp:159 mixes a double local with Scalar=float): double only
static void spherical_case(double r, double th, double el, double tol)
{
  CartesianCoordinates3<double> q(r * std::cos(th) * std::sin(el), r * std::sin(th) * std::sin(el), r * std::cos(el));
  CartesianCoordinates3<double> qb = toCartesian(toSpherical(q));
  if ((qb - q).norm() > tol * r) FAIL("spherical round trip of (%g,%g,%g) gives (%g,%g,%g)", q[0], q[1], q[2], qb[0], qb[1], qb[2]);
  SphericalCoordinates<double> s = toSpherical(q);
  if (std::fabs(s.getRange() - r) > tol * r) FAIL("spherical range of a point of norm %g is %g", r, s.getRange());
}
static void spherical_case(float, float, float, float) {}

template<typename S> static void planar_and_coords(std::mt19937 & rng, S tol)
{
  for (int k = 0; k < 300; ++k) {
    S v = S((double)(rng() % 2000001) / 1000000 - 1) * S(4 * M_PI) * S(0.999);
    if (k < 8) { S c[] = {0, S(2 * M_PI), S(-2 * M_PI), S(M_PI), S(-M_PI), S(1e-9), S(-1e-9), S(3 * M_PI)}; v = c[k]; }
    S a = between0And2Pi(v), b = betweenMinusPiAndPi(v);
    if (!(a >= 0 && a <= S(2 * M_PI) + tol) || angdiff(a, v) > tol) FAIL("between0And2Pi(%.9g) = %.9g", (double)v, (double)a);
    if (!(b >= -S(M_PI) - tol && b <= S(M_PI) + tol) || angdiff(b, v) > tol) FAIL("betweenMinusPiAndPi(%.9g) = %.9g", (double)v, (double)b);
    S th = v / 2;
    Eigen::Matrix<S, 2, 2> M = eulerAngleToRotation2D(th);
    if (angdiff(rotation2DToEulerAngle(M), th) > tol) FAIL("planar angle %.9g -> matrix -> angle gives %.9g", (double)th, (double)rotation2DToEulerAngle(M));
    if ((eulerAngleToRotation2D(rotation2DToEulerAngle(M)) - M).norm() > tol) FAIL("planar matrix -> angle -> matrix differs at angle %.9g", (double)th);
    S r = std::pow(S(10), S((double)(rng() % 12001) / 1000 - 6));
    CartesianCoordinates2<S> p(r * std::cos(th), r * std::sin(th));
    CartesianCoordinates2<S> pb = toCartesian(toPolar(p));
    if ((pb - p).norm() > tol * r) FAIL("polar round trip of (%g,%g) gives (%g,%g)", (double)p[0], (double)p[1], (double)pb[0], (double)pb[1]);
    S el = S((double)(rng() % 10001) / 10000) * S(M_PI);
    spherical_case(r, th, S((double)(rng() % 10001) / 10000) * S(M_PI), tol);
  }
}

int main(int argc, char ** argv)
{
  std::map<std::string, std::string> A;
  for (int i = 1; i < argc; ++i) { std::string a(argv[i]); auto p = a.find('='); if (p != std::string::npos) A[a.substr(0, p)] = a.substr(p + 1); }
  std::mt19937 rng(A.count("seed") ? (unsigned)atol(A["seed"].c_str()) : 0);
  if (A.count("roll") || A.count("pitch") || A.count("yaw")) {
    double r = A.count("roll") ? val(A["roll"]) : 0.3, p = A.count("pitch") ? val(A["pitch"]) : 0.2, y = A.count("yaw") ? val(A["yaw"]) : -0.4;
    if (std::fabs(p) < M_PI / 2 - 1e-3 && std::fabs(r) < 2 * M_PI && std::fabs(y) < 2 * M_PI) euler_case<double>(r, p, y, 1e-9);
  }
  for (int k = 0; k < 500; ++k) {
    double r = ((double)(rng() % 2000001) / 1000000 - 1) * 2 * M_PI * 0.999, y = ((double)(rng() % 2000001) / 1000000 - 1) * 2 * M_PI * 0.999;
    double p = ((double)(rng() % 2000001) / 1000000 - 1) * (M_PI / 2 - 1e-3);
    if (k == 0) { r = 0; p = 0; y = 0; } if (k == 1) { r = -3; p = 1.5; y = 6; } if (k == 2) { r = 3.5; p = -1.5; y = -6; }
    euler_case<double>(r, p, y, 1e-9);
    euler_case<float>((float)r, (float)(p * 0.98), (float)y, 2e-3f);
  }
  planar_and_coords<double>(rng, 1e-9); planar_and_coords<float>(rng, 2e-3f);
  if (fails) { printf("%d failing checks\n", fails); return 1; }
  printf("no failing input found: angle/rotation/quaternion/coordinate round trips agree with the property (double and float)\n");
  return 0;
}
