// Native replay for C18: check-up classification at and around the thresholds, report consistency over
// evaluate/timeout sequences, status algebra, worst status, report concatenation. Inputs from the verifier's
// counterexample (value/target/epsilon as g_value, g_target, g_eps bit patterns) are tried first when present.
#include "romea_core_common/diagnostic/CheckupEqualTo.hpp"
#include "romea_core_common/diagnostic/CheckupGreaterThan.hpp"
#include "romea_core_common/diagnostic/CheckupLowerThan.hpp"
#include "romea_core_common/diagnostic/CheckupReliability.hpp"
#include <random>
#include <cmath>
#include <cstdio>
#include <cstdlib>
#include <string>
#include <map>
using namespace romea::core;
static int fails = 0;
#define FAIL(...) do { printf("FAILING-INPUT: "); printf(__VA_ARGS__); printf("\n"); ++fails; } while (0)

static std::string str(double v) { return toStringInfoValue(v); }

template<class C> static void consistent(C & c, const char * kind, DiagnosticStatus ret, DiagnosticStatus want, const std::string & verdict, double v, double t, double e)
{
  const DiagnosticReport & r = c.getReport();
  if (r.diagnostics.size() != 1 || r.info.size() != 1) { FAIL("%s v=%.17g t=%.17g eps=%.17g: report has %zu diagnostics / %zu info entries", kind, v, t, e, r.diagnostics.size(), r.info.size()); return; }
  if (ret != want) FAIL("%s value=%.17g target=%.17g eps=%.17g: status %d, expected %d", kind, v, t, e, (int)ret, (int)want);
  if (r.diagnostics.front().status != ret) FAIL("%s value=%.17g: returned status %d but stored status %d", kind, v, (int)ret, (int)r.diagnostics.front().status);
  if (r.diagnostics.front().message != "q" + verdict) FAIL("%s value=%.17g target=%.17g eps=%.17g: message '%s', expected 'q%s'", kind, v, t, e, r.diagnostics.front().message.c_str(), verdict.c_str());
  if (r.info.begin()->first != "q" || r.info.begin()->second != str(v)) FAIL("%s value=%.17g: info '%s'='%s', expected 'q'='%s'", kind, v, r.info.begin()->first.c_str(), r.info.begin()->second.c_str(), str(v).c_str());
}

static void classify(double v, double t, double e)
{
  double lo = t - e, hi = t + e;
  { CheckupEqualTo<double> c("q", t, e);
    bool ok = v >= lo && v <= hi;
    consistent(c, "equal-to", c.evaluate(v), ok ? DiagnosticStatus::OK : DiagnosticStatus::ERROR, ok ? " is OK." : (v < lo ? " is too low." : " is too high."), v, t, e); }
  { CheckupGreaterThan<double> c("q", t, e);
    bool ok = v > lo;
    consistent(c, "greater-than", c.evaluate(v), ok ? DiagnosticStatus::OK : DiagnosticStatus::ERROR, ok ? " is OK." : " is too low.", v, t, e); }
  { CheckupLowerThan<double> c("q", t, e);
    bool ok = v < hi;
    consistent(c, "lower-than", c.evaluate(v), ok ? DiagnosticStatus::OK : DiagnosticStatus::ERROR, ok ? " is OK." : " is too high.", v, t, e); }
}

static void sequences(std::mt19937 & rng)
{
  CheckupEqualTo<double> ce("q", 10, 1); CheckupGreaterThan<double> cg("q", 10, 1); CheckupLowerThan<double> cl("q", 10, 1);
  double vals[] = {5, 9, 9.5, 10, 11, 11.5, 20};
  double last = 0; bool have = false;
  for (int s = 0; s < 60; ++s) {
    int op = rng() % 4;
    if (op == 0) {
      ce.timeout(); cg.timeout(); cl.timeout();
      const DiagnosticReport reps[3] = {ce.getReport(), cg.getReport(), cl.getReport()};    // by value or by reference, whichever the tree returns
      for (const DiagnosticReport & rr : reps) {
        const DiagnosticReport * r = &rr;
        if (r->diagnostics.front().status != DiagnosticStatus::STALE || r->diagnostics.front().message != "q timeout." || r->info.begin()->second != "")
          FAIL("sequence step %d: after timeout() status=%d message='%s' info='%s'", s, (int)r->diagnostics.front().status, r->diagnostics.front().message.c_str(), r->info.begin()->second.c_str());
      }
    } else {
      double v = (have && rng() % 2) ? last : vals[rng() % 7];
      last = v; have = true;
      bool okE = v >= 9 && v <= 11;
      consistent(ce, "equal-to(seq)", ce.evaluate(v), okE ? DiagnosticStatus::OK : DiagnosticStatus::ERROR, okE ? " is OK." : (v < 9 ? " is too low." : " is too high."), v, 10, 1);
      consistent(cg, "greater-than(seq)", cg.evaluate(v), v > 9 ? DiagnosticStatus::OK : DiagnosticStatus::ERROR, v > 9 ? " is OK." : " is too low.", v, 10, 1);
      consistent(cl, "lower-than(seq)", cl.evaluate(v), v < 11 ? DiagnosticStatus::OK : DiagnosticStatus::ERROR, v < 11 ? " is OK." : " is too high.", v, 10, 1);
    }
  }
}

// timeout() as the very first event, and directly after another timeout(), from every initial diagnostic status (seed C18-e)
template<class C> static void timeout_first_one(const char * kind, int st0, bool explicit_diag)
{
  C cd("q", 10, 1), cx("q", 10, 1, Diagnostic(static_cast<DiagnosticStatus>(st0), "initial text"));
  C & c = explicit_diag ? cx : cd;
  for (int k = 0; k < 2; ++k) {
    c.timeout();
    const DiagnosticReport r = c.getReport();
    if (r.diagnostics.front().status != DiagnosticStatus::STALE || r.diagnostics.front().message != "q timeout." || r.info.begin()->second != "")
      FAIL("%s check-up built with %s (status %d): after %d timeout() call(s) and no evaluation status=%d message='%s' info='%s', expected STALE 'q timeout.' ''", kind,
        explicit_diag ? "an explicit initial diagnostic" : "the default diagnostic", st0, k + 1, (int)r.diagnostics.front().status, r.diagnostics.front().message.c_str(), r.info.begin()->second.c_str());
  }
}
static void timeout_first()
{
  for (int st = 0; st < 4; ++st) for (int ex = 0; ex < 2; ++ex) {
    if (!ex && st) continue;
    timeout_first_one<CheckupEqualTo<double>>("equal-to", st, ex); timeout_first_one<CheckupGreaterThan<double>>("greater-than", st, ex); timeout_first_one<CheckupLowerThan<double>>("lower-than", st, ex);
  }
}

static void reliability(std::mt19937 & rng)
{
  for (int i = 0; i < 200; ++i) {
    double lo = (rng() % 100) / 100.0, hi = lo + (rng() % 50) / 100.0;
    CheckupReliability c("q", lo, hi);
    double cands[] = {lo, hi, std::nextafter(lo, -1), std::nextafter(lo, 2), std::nextafter(hi, -1), std::nextafter(hi, 2), (rng() % 1000) / 500.0 - 0.5};
    for (double v : cands) {
      DiagnosticStatus want = v < lo ? DiagnosticStatus::ERROR : (v < hi ? DiagnosticStatus::WARN : DiagnosticStatus::OK);
      DiagnosticStatus got = c.evaluate(v);
      DiagnosticReport r = c.getReport();
      std::string verdict = want == DiagnosticStatus::ERROR ? " is too low." : (want == DiagnosticStatus::WARN ? " is uncertain." : " is high.");
      if (got != want || r.diagnostics.front().status != got || r.diagnostics.front().message != "q" + verdict || r.info.begin()->second != str(v))
        FAIL("reliability value=%.17g low=%.17g high=%.17g: status %d (expected %d) stored %d message '%s' info '%s'", v, lo, hi, (int)got, (int)want, (int)r.diagnostics.front().status, r.diagnostics.front().message.c_str(), r.info.begin()->second.c_str());
    }
  }
}

static void algebra(std::mt19937 & rng)
{
  DiagnosticStatus S[4] = {DiagnosticStatus::OK, DiagnosticStatus::WARN, DiagnosticStatus::ERROR, DiagnosticStatus::STALE};
  for (auto a : S) for (auto b : S) for (auto c : S) {
    if (worse(a, b) != worse(b, a)) FAIL("worse(%d,%d) != worse(%d,%d)", (int)a, (int)b, (int)b, (int)a);
    if (worse(worse(a, b), c) != worse(a, worse(b, c))) FAIL("worse not associative on (%d,%d,%d)", (int)a, (int)b, (int)c);
    if (worse(a, a) != a) FAIL("worse(%d,%d) != %d", (int)a, (int)a, (int)a);
    if ((int)worse(a, b) != std::max((int)a, (int)b)) FAIL("worse(%d,%d) = %d is not the maximum", (int)a, (int)b, (int)worse(a, b));
  }
  for (int i = 0; i < 500; ++i) {
    std::list<Diagnostic> l; int mx = 0; bool all = true; size_t n = 1 + rng() % 20;
    for (size_t k = 0; k < n; ++k) { int s = (rng() % 3 == 0) ? (int)(rng() % 4) : 0; mx = std::max(mx, s); all = all && s == 0; l.push_back(Diagnostic(S[s], "m" + std::to_string(k))); }
    if ((int)worseStatus(l) != mx) FAIL("worseStatus of a list of %zu entries = %d, maximum is %d", n, (int)worseStatus(l), mx);
    if (allOK(l) != all) FAIL("allOK of a list of %zu entries = %d, expected %d", n, (int)allOK(l), (int)all);
    DiagnosticReport r1, r2; size_t n1 = rng() % 10, n2 = rng() % 10;
    for (size_t k = 0; k < n1; ++k) { r1.diagnostics.push_back(Diagnostic(S[rng() % 4], "a" + std::to_string(k))); }
    for (size_t k = 0; k < n2; ++k) { r2.diagnostics.push_back(Diagnostic(S[rng() % 4], "b" + std::to_string(k))); }
    r1.info["x"] = "1"; r1.info["y"] = "2"; r2.info["y"] = "3"; r2.info["z"] = "4";
    std::list<Diagnostic> want = r1.diagnostics; for (auto & d : r2.diagnostics) want.push_back(d);
    r1 += r2;
    bool same = want.size() == r1.diagnostics.size();
    auto i1 = want.begin(); auto i2 = r1.diagnostics.begin();
    for (; same && i1 != want.end(); ++i1, ++i2) same = i1->message == i2->message && i1->status == i2->status;
    if (!same) FAIL("report1 += report2 (%zu + %zu diagnostics): diagnostics are not report1's followed by report2's", n1, n2);
    if (r1.info.size() != 3 || r1.info["x"] != "1" || r1.info["y"] != "2" || r1.info["z"] != "4") FAIL("report1 += report2: info not merged (x=%s y=%s z=%s)", r1.info["x"].c_str(), r1.info["y"].c_str(), r1.info["z"].c_str());
  }
}

int main(int argc, char ** argv)
{
  std::map<std::string, std::string> A;
  for (int i = 1; i < argc; ++i) { std::string a(argv[i]); auto p = a.find('='); if (p != std::string::npos) A[a.substr(0, p)] = a.substr(p + 1); }
  unsigned seed = A.count("seed") ? (unsigned)atol(A["seed"].c_str()) : 0;
  std::mt19937 rng(seed);
  if (A.count("g_value") && A.count("g_target") && A.count("g_eps")) classify(atof(A["g_value"].c_str()), atof(A["g_target"].c_str()), std::fabs(atof(A["g_eps"].c_str())));
  double targets[] = {0, 1, -1, 10, 0.1, 1e-300, 1e300, -7.25, 3.0000000000000004};
  double epss[] = {0, 1e-9, 0.5, 1, 2.5, 1e-320};
  for (double t : targets) for (double e : epss) {
    double lo = t - e, hi = t + e;
    double cands[] = {lo, hi, std::nextafter(lo, -INFINITY), std::nextafter(lo, INFINITY), std::nextafter(hi, -INFINITY), std::nextafter(hi, INFINITY), t, t - 2 * e - 1, t + 2 * e + 1};
    for (double v : cands) if (std::isfinite(v)) classify(v, t, e);
  }
  for (int i = 0; i < 2000; ++i) { double t = (double)(rng() % 2001) / 10 - 100, e = (double)(rng() % 50) / 10; double v = t + ((double)(rng() % 2001) / 1000 - 1) * (e + 1); classify(v, t, e); }
  sequences(rng); timeout_first(); reliability(rng); algebra(rng);
  if (fails) return 1;
  printf("no failing input found: threshold boundaries (on, one ulp below/above), evaluate/timeout sequences, status algebra and report concatenation agree with the property\n");
  return 0;
}
