// Native replay for C12: SmartRotation3D derivative matrices against central finite differences of its own R(),
// dRTdAngles against (dR/da)*T. One line per wrong entry:  FAILING-INPUT: dRd<axis>[i,j] ...
// (the obligation name given on the command line selects which entry must be reported for the replay to count).
#include "romea_core_common/transform/SmartRotation3D.hpp"
#include "romea_core_common/geometry/Pose3D.hpp"
#include "romea_core_common/math/EulerAngles.hpp"
#include "romea_core_common/regression/leastsquares/LeastSquares.hpp"
#include <Eigen/Dense>
#include <map>
#include <set>
#include <string>
#include <random>
#include <cmath>
#include <cstdio>
#include <cstdlib>
using namespace romea::core;

int main(int argc, char ** argv)
{
  std::map<std::string, std::string> A;
  for (int i = 1; i < argc; ++i) { std::string a(argv[i]); auto p = a.find('='); if (p != std::string::npos) A[a.substr(0, p)] = a.substr(p + 1); }
  std::string want = A.count("obligation") ? A["obligation"] : "";
  std::mt19937 rng(A.count("seed") ? (unsigned)atol(A["seed"].c_str()) : 0);
  std::set<std::string> bad;
  int printed = 0;
  const double h = 1e-6;
  for (int k = 0; k < 400; ++k) {
    double ang[3];
    for (int a = 0; a < 3; ++a) ang[a] = ((double)(rng() % 20001) / 10000 - 1) * M_PI;
    ang[1] *= (M_PI / 2 - 0.05) / M_PI;
    if (k == 0) { ang[0] = ang[1] = ang[2] = 0; }
    if (k == 1) { ang[0] = M_PI / 2; ang[1] = M_PI / 4; ang[2] = M_PI / 2; }
    SmartRotation3D r(ang[0], ang[1], ang[2]);
    const Eigen::Matrix3d * D[3] = {&r.dRdAngleAroundXAxis(), &r.dRdAngleAroundYAxis(), &r.dRdAngleAroundZAxis()};
    for (int a = 0; a < 3; ++a) {
      double p[3] = {ang[0], ang[1], ang[2]}, m[3] = {ang[0], ang[1], ang[2]};
      p[a] += h; m[a] -= h;
      Eigen::Matrix3d fd = (SmartRotation3D(p[0], p[1], p[2]).R() - SmartRotation3D(m[0], m[1], m[2]).R()) / (2 * h);
      for (int i = 0; i < 3; ++i) for (int j = 0; j < 3; ++j)
        if (std::fabs((*D[a])(i, j) - fd(i, j)) > 1e-6) {
          char name[64]; snprintf(name, sizeof name, "dRd%c[%d,%d]", "XYZ"[a], i, j);
          if (bad.insert(name).second && printed++ < 40)
            printf("FAILING-INPUT: %s.is_derivative_of_R at roll=%.9g pitch=%.9g yaw=%.9g: reported %.9g, finite difference of R() %.9g\n", name, ang[0], ang[1], ang[2], (*D[a])(i, j), fd(i, j));
        }
      Eigen::Vector3d T(0.3 + k, -1.7, 2.2);
      Eigen::Matrix3d M = r.dRTdAngles(T);
      Eigen::Vector3d col = (*D[a]) * T;
      for (int i = 0; i < 3; ++i) if (std::fabs(M(i, a) - col[i]) > 1e-9 * (1 + std::fabs(col[i]))) {
        char name[64]; snprintf(name, sizeof name, "dRTdAngles[%d,%d]", i, a);
        if (bad.insert(name).second) printf("FAILING-INPUT: %s.is_dRdAngle_times_T: %.9g vs %.9g\n", name, M(i, a), col[i]);
      }
    }
  }
  // ---- pose transformation: covariance' = J cov J^T with J the Jacobian of the library's own map (central differences) ----
  auto wrap = [](double d) { while (d > M_PI) d -= 2 * M_PI; while (d < -M_PI) d += 2 * M_PI; return d; };
  for (int k = 0; k < 60; ++k) {
    double t[3], a[3];
    for (int i = 0; i < 3; ++i) { t[i] = ((double)(rng() % 20001) / 10000 - 1) * 1.2; a[i] = ((double)(rng() % 20001) / 10000 - 1) * 1.2; }
    if (k == 0) { t[0] = 0.5; t[1] = -0.3; t[2] = 0.9; a[0] = 0.3; a[1] = 0.2; a[2] = 0.1; }
    Eigen::Affine3d A = Eigen::Affine3d::Identity();
    A.linear() = eulerAnglesToRotation3D(Eigen::Vector3d(t[0], t[1], t[2]));
    A.translation() = Eigen::Vector3d(1.5, -2.0, 0.7);
    Pose3D p; p.position = Eigen::Vector3d(1, 2, 3); p.orientation = Eigen::Vector3d(a[0], a[1], a[2]); p.covariance.setZero();
    Pose3D r0 = A * p;
    if (std::fabs(std::fabs(wrap(r0.orientation[1])) - M_PI / 2) < 0.1) continue;     // away from gimbal lock after the transform
    Eigen::Matrix<double, 6, 6> Jfd;
    for (int c = 0; c < 6; ++c) {
      Pose3D pp = p, pm = p;
      if (c < 3) { pp.position[c] += h; pm.position[c] -= h; } else { pp.orientation[c - 3] += h; pm.orientation[c - 3] -= h; }
      Pose3D rp = A * pp, rm = A * pm;
      for (int i = 0; i < 3; ++i) { Jfd(i, c) = (rp.position[i] - rm.position[i]) / (2 * h); Jfd(3 + i, c) = wrap(rp.orientation[i] - rm.orientation[i]) / (2 * h); }
    }
    for (int c = 0; c < 6; ++c) {
      p.covariance.setZero(); p.covariance(c, c) = 1;            // covariance' = J(:,c) J(:,c)^T : exposes the column's magnitudes
      Pose3D r = A * p;
      for (int i = 0; i < 6; ++i) {
        double code = std::sqrt(std::max(0.0, r.covariance(i, i))), want_ = std::fabs(Jfd(i, c));
        if (std::fabs(code - want_) > 1e-5 * (1 + want_)) {
          char name[64]; snprintf(name, sizeof name, "pose_transform.J[%d,%d]", i, c);
          if (bad.insert(name).second && printed++ < 80)
            printf("FAILING-INPUT: %s: transform angles (%.4g, %.4g, %.4g), pose angles (%.4g, %.4g, %.4g), covariance = e%d e%d^T: returned variance of component %d is %.9g, the Jacobian of the library's own map gives %.9g\n",
                   name, t[0], t[1], t[2], a[0], a[1], a[2], c, c, i, code * code, want_ * want_);
        }
      }
    }
  }
  // covariance' = J cov J^T must at least be symmetric for a symmetric (fully correlated) input covariance
  {
    Eigen::Affine3d A = Eigen::Affine3d::Identity();
    A.linear() = eulerAnglesToRotation3D(Eigen::Vector3d(0.5, -0.3, 0.9)); A.translation() = Eigen::Vector3d(1.5, -2.0, 0.7);
    Pose3D p; p.position = Eigen::Vector3d(1, 2, 3); p.orientation = Eigen::Vector3d(0.3, 0.2, 0.1);
    Eigen::Matrix<double, 6, 6> L; for (int i = 0; i < 6; ++i) for (int j = 0; j < 6; ++j) L(i, j) = 0.1 * ((i * 7 + j * 3) % 11) - 0.4 + (i == j ? 1.0 : 0.0);
    p.covariance = L * L.transpose();
    Pose3D r = A * p;
    for (int i = 0; i < 6; ++i) for (int j = 0; j < i; ++j)
      if (std::fabs(r.covariance(i, j) - r.covariance(j, i)) > 1e-9 * (1 + std::fabs(r.covariance(i, j)))) {
        char name[64]; snprintf(name, sizeof name, "pose_transform.covariance[%d,%d]", i, j);
        if (bad.insert(name).second && printed++ < 90) printf("FAILING-INPUT: %s: fully correlated covariance L L^T: covariance'(%d,%d) = %.9g but covariance'(%d,%d) = %.9g (J cov J^T is symmetric)\n", name, i, j, r.covariance(i, j), j, i, r.covariance(j, i));
      }
  }
  // least-squares solver: reported covariance against variance * Ac * (J^T J)^-1 * Ac^T computed independently, for a diagonal preconditioner,
  // on all three estimation paths, on a fresh object and on an object that held a larger problem before (stale rows)
  for (int k = 0; k < 60; ++k) {
    int n = 2 + k % 3, m = n + 1 + (int)(rng() % 6), mbig = m + 1 + (int)(rng() % 5);
    for (int reuse = 0; reuse < 2; ++reuse) for (int path = 0; path < 3; ++path) {
      LeastSquares<double> ls(n);
      if (reuse) {
        ls.setDataSize(mbig);
        for (int i = 0; i < mbig; ++i) { for (int j = 0; j < n; ++j) ls.getJ()(i, j) = 50 + (double)(rng() % 2001) / 100; ls.getY()(i) = 7; }
        ls.estimateUsingSVD();
      }
      ls.setDataSize(m);
      Eigen::MatrixXd J(m, n); Eigen::VectorXd Y(m);
      for (int i = 0; i < m; ++i) { for (int j = 0; j < n; ++j) { J(i, j) = (double)(rng() % 2001) / 1000 - 1 + (i == j ? 2.0 : 0.0); ls.getJ()(i, j) = J(i, j); } Y(i) = (double)(rng() % 2001) / 1000 - 1; ls.getY()(i) = Y(i); }
      Eigen::MatrixXd Ac = Eigen::MatrixXd::Zero(n, n); Eigen::VectorXd Bc(n);
      for (int j = 0; j < n; ++j) { Ac(j, j) = (k % 4 == 0) ? 1.0 : 0.25 * (1 + (double)(rng() % 16)); Bc(j) = (double)(rng() % 11) - 5; }
      ls.setPreconditionner(Ac, Bc);
      const char * pname = path == 0 ? "estimateUsingCholeskyDecomposition" : (path == 1 ? "estimateUsingSVD" : "weightedEstimate");
      if (path == 0) ls.estimateUsingCholeskyDecomposition(); else if (path == 1) ls.estimateUsingSVD(); else ls.weightedEstimate();
      double var = 0.5 + (double)(rng() % 100) / 50;
      Eigen::MatrixXd cov = ls.computeEstimateCovariance(var);
      Eigen::MatrixXd want_cov = var * Ac * (J.transpose() * J).inverse() * Ac.transpose();
      double err = (cov - want_cov).norm(), scale = want_cov.norm();
      if (!(err <= 1e-8 * (1 + scale))) {
        if (bad.insert("least_squares.covariance").second || printed < 100) if (printed++ < 100)
          printf("FAILING-INPUT: least_squares.covariance: %s, %d unknowns, %d data rows%s, diagonal preconditioner (%g, %g, ...), variance %g: reported covariance differs from variance * Ac * (JtJ)^-1 * Ac^T by %.3g (norm %.3g); cov(0,1) = %.9g, expected %.9g\n",
                 pname, n, m, reuse ? " (object held a larger problem before)" : "", Ac(0, 0), Ac(1, 1), var, err, scale, cov(0, 1), want_cov(0, 1));
      }
    }
  }
  if (bad.empty()) { printf("no failing input found: all derivative entries agree with finite differences of R()\n"); return 0; }
  if (!want.empty()) {
    std::string key = want.substr(0, want.find('.'));
    if (want.find("is_derivative_of_R") != std::string::npos || want.find("dRTdAngles") != std::string::npos)
      return bad.count(key) ? 1 : 0;
    if (want.find("pose_transform.covariance[") != std::string::npos) {
      for (auto & n : bad) if (n.find("pose_transform.covariance[") != std::string::npos) return 1;
      return 0;
    }
    if (want.find("least_squares") != std::string::npos) return bad.count("least_squares.covariance") ? 1 : 0;
    if (want.find("pose_transform.J[") != std::string::npos)
      return bad.count(want.substr(want.find("pose_transform.J["), want.find(']') - want.find("pose_transform.J[") + 1)) ? 1 : 0;
  }
  return 1;
}
