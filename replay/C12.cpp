// Native replay for C12: SmartRotation3D derivative matrices against central finite differences of its own R(),
// dRTdAngles against (dR/da)*T. One line per wrong entry:  FAILING-INPUT: dRd<axis>[i,j] ...
// (the obligation name given on the command line selects which entry must be reported for the replay to count).
#include "romea_core_common/transform/SmartRotation3D.hpp"
#include <map>
#include <set>
#include <string>
#include <random>
#include <cmath>
#include <cstdio>
#include <cstdlib>
using namespace romea::core;

int main(int argc, char ** argv)
{
  std::map<std::string, std::string> A;
  for (int i = 1; i < argc; ++i) { std::string a(argv[i]); auto p = a.find('='); if (p != std::string::npos) A[a.substr(0, p)] = a.substr(p + 1); }
  std::string want = A.count("obligation") ? A["obligation"] : "";
  std::mt19937 rng(A.count("seed") ? (unsigned)atol(A["seed"].c_str()) : 0);
  std::set<std::string> bad;
  int printed = 0;
  const double h = 1e-6;
  for (int k = 0; k < 400; ++k) {
    double ang[3];
    for (int a = 0; a < 3; ++a) ang[a] = ((double)(rng() % 20001) / 10000 - 1) * M_PI;
    ang[1] *= (M_PI / 2 - 0.05) / M_PI;
    if (k == 0) { ang[0] = ang[1] = ang[2] = 0; }
    if (k == 1) { ang[0] = M_PI / 2; ang[1] = M_PI / 4; ang[2] = M_PI / 2; }
    SmartRotation3D r(ang[0], ang[1], ang[2]);
    const Eigen::Matrix3d * D[3] = {&r.dRdAngleAroundXAxis(), &r.dRdAngleAroundYAxis(), &r.dRdAngleAroundZAxis()};
    for (int a = 0; a < 3; ++a) {
      double p[3] = {ang[0], ang[1], ang[2]}, m[3] = {ang[0], ang[1], ang[2]};
      p[a] += h; m[a] -= h;
      Eigen::Matrix3d fd = (SmartRotation3D(p[0], p[1], p[2]).R() - SmartRotation3D(m[0], m[1], m[2]).R()) / (2 * h);
      for (int i = 0; i < 3; ++i) for (int j = 0; j < 3; ++j)
        if (std::fabs((*D[a])(i, j) - fd(i, j)) > 1e-6) {
          char name[64]; snprintf(name, sizeof name, "dRd%c[%d,%d]", "XYZ"[a], i, j);
          if (bad.insert(name).second && printed++ < 40)
            printf("FAILING-INPUT: %s.is_derivative_of_R at roll=%.9g pitch=%.9g yaw=%.9g: reported %.9g, finite difference of R() %.9g\n", name, ang[0], ang[1], ang[2], (*D[a])(i, j), fd(i, j));
        }
      Eigen::Vector3d T(0.3 + k, -1.7, 2.2);
      Eigen::Matrix3d M = r.dRTdAngles(T);
      Eigen::Vector3d col = (*D[a]) * T;
      for (int i = 0; i < 3; ++i) if (std::fabs(M(i, a) - col[i]) > 1e-9 * (1 + std::fabs(col[i]))) {
        char name[64]; snprintf(name, sizeof name, "dRTdAngles[%d,%d]", i, a);
        if (bad.insert(name).second) printf("FAILING-INPUT: %s.is_dRdAngle_times_T: %.9g vs %.9g\n", name, M(i, a), col[i]);
      }
    }
  }
  if (bad.empty()) { printf("no failing input found: all derivative entries agree with finite differences of R()\n"); return 0; }
  if (!want.empty()) {
    std::string key = want.substr(0, want.find('.'));
    if (want.find("is_derivative_of_R") != std::string::npos || want.find("dRTdAngles") != std::string::npos)
      return bad.count(key) ? 1 : 0;
  }
  return 1;
}
