// Native replay for C15: WrappableGrid<int,DIM> against the unbounded-map (sliding window) model.
// args: key=value ... (ghost values from the verifier's counterexample: g_n0,g_n1[,g_n2], g_off*, g_k*, emptyValue...) seed=N
// 1) replays the counterexample: grid of the given size, brought to the given offsets by one translation, cells filled with
//    distinct values, then the translation k with the given empty value; every cell and the offsets are compared with the model.
// 2) seeded neighbourhood search: random translate/write sequences (property's quantifier: n<=8, |k|<=2n, <=50 steps).
#include "romea_core_common/containers/grid/WrappableGrid.hpp"
#include <map>
#include <string>
#include <vector>
#include <random>
#include <cstdio>
#include <cstdlib>
using namespace romea::core;

static std::map<std::string, long> A;
static long arg(const std::string & k, long d) { auto it = A.find(k); return it == A.end() ? d : it->second; }

template<size_t DIM>
struct Sim {
  using G = WrappableGrid<int, DIM>;
  long n[3] = {1, 1, 1};
  G * g = nullptr;
  std::vector<int> win;
  long acc[3] = {0, 0, 0};
  std::string hist;
  int & at(long x, long y, long z) { return win[x + n[0] * (y + n[1] * z)]; }
  void init(const long * nn) {
    typename G::CellIndexes c;
    for (size_t a = 0; a < DIM; ++a) { n[a] = nn[a]; c[a] = nn[a]; }
    g = new G(c); g->setValue(-1); win.assign(n[0] * n[1] * n[2], -1);
    hist = "grid(";
    for (size_t a = 0; a < DIM; ++a) hist += std::to_string(n[a]) + (a + 1 < DIM ? "," : ")");
  }
  void write(long x, long y, long z, int v) {
    typename G::CellIndexes ci; ci[0] = x; ci[1] = y; if (DIM == 3) ci[2] = z;
    (*g)(ci) = v; at(x, y, z) = v;
  }
  void fill_distinct(int base) {
    int c = base;
    for (long z = 0; z < n[2]; ++z) for (long y = 0; y < n[1]; ++y) for (long x = 0; x < n[0]; ++x) write(x, y, z, c++);
    hist += " fill";
  }
  void translate(const long * k, int e) {
    typename G::CellIndexesOffset off;
    for (size_t a = 0; a < DIM; ++a) off[a] = (int)k[a];
    g->translate(off, e);
    std::vector<int> nw(win.size());
    for (long z = 0; z < n[2]; ++z) for (long y = 0; y < n[1]; ++y) for (long x = 0; x < n[0]; ++x) {
      long ox = x + k[0], oy = y + (DIM > 1 ? k[1] : 0), oz = z + (DIM > 2 ? k[2] : 0);
      bool in = ox >= 0 && ox < n[0] && oy >= 0 && oy < n[1] && oz >= 0 && oz < n[2];
      nw[x + n[0] * (y + n[1] * z)] = in ? at(ox, oy, oz) : e;
    }
    win = nw;
    hist += " translate(";
    for (size_t a = 0; a < DIM; ++a) { acc[a] += k[a]; hist += std::to_string(k[a]) + (a + 1 < DIM ? "," : ""); }
    hist += ";empty=" + std::to_string(e) + ")";
  }
  bool check() {
    for (long z = 0; z < n[2]; ++z) for (long y = 0; y < n[1]; ++y) for (long x = 0; x < n[0]; ++x) {
      typename G::CellIndexes ci; ci[0] = x; ci[1] = y; if (DIM == 3) ci[2] = z;
      if ((*g)(ci) != at(x, y, z)) {
        printf("FAILING-INPUT: dim=%zu history: %s ; cell (%ld,%ld,%ld) reads %d, the sliding-window model says %d\n", DIM, hist.c_str(), x, y, z, (*g)(ci), at(x, y, z));
        return false;
      }
    }
    for (size_t a = 0; a < DIM; ++a) {
      long want = ((acc[a] % n[a]) + n[a]) % n[a];
      if ((long)g->getIndexOffsetAlongAxes()[a] != want) {
        printf("FAILING-INPUT: dim=%zu history: %s ; reported offset along axis %zu is %lu, accumulated offset mod size is %ld\n", DIM, hist.c_str(), a, g->getIndexOffsetAlongAxes()[a], want);
        return false;
      }
    }
    return true;
  }
};

template<size_t DIM>
int replay_cex()
{
  if (A.find("g_n0") == A.end()) return 0;
  long n[3] = {arg("g_n0", 1), arg("g_n1", 1), arg("g_n2", 1)};
  for (int a = 0; a < 3; ++a) if (n[a] < 1 || n[a] > 64) return 0;
  long off[3] = {arg("g_off0", 0), arg("g_off1", 0), arg("g_off2", 0)};
  long k[3] = {arg("g_k0", 0), arg("g_k1", 0), arg("g_k2", 0)};
  int e = (int)arg("g_e", -7);
  Sim<DIM> s; s.init(n);
  s.translate(off, -3);
  if (!s.check()) return 1;
  s.fill_distinct(100);
  s.translate(k, e);
  return s.check() ? 0 : 1;
}

template<size_t DIM>
int search(unsigned seed, int runs)
{
  for (int r = 0; r < runs; ++r) {
    std::mt19937 rng(seed * 7919u + r);
    long n[3] = {1, 1, 1};
    int maxn = (r % 4 == 0) ? 3 : 8;
    for (size_t a = 0; a < DIM; ++a) n[a] = 1 + rng() % maxn;
    Sim<DIM> s; s.init(n);
    int counter = 1;
    for (int st = 0; st < 50; ++st) {
      if (rng() % 3 == 0) { s.write(rng() % n[0], rng() % n[1], rng() % n[2], counter++); }
      else {
        long k[3] = {0, 0, 0};
        for (size_t a = 0; a < DIM; ++a) k[a] = (long)(rng() % (4 * n[a] + 1)) - 2 * n[a];
        s.translate(k, -(int)(rng() % 100) - 2);
      }
      if (!s.check()) return 1;
    }
  }
  return 0;
}

int main(int argc, char ** argv)
{
  unsigned seed = 0; std::string obligation;
  for (int i = 1; i < argc; ++i) {
    std::string a(argv[i]); auto p = a.find('=');
    if (p == std::string::npos) continue;
    std::string k = a.substr(0, p), v = a.substr(p + 1);
    if (k == "obligation") { obligation = v; continue; }
    A[k] = strtol(v.c_str(), nullptr, 10);
  }
  seed = (unsigned)arg("seed", 0);
  bool three = obligation.find("WG3") != std::string::npos || A.count("g_n2");
  int rc = three ? replay_cex<3>() : replay_cex<2>();
  if (rc) return 1;
  if (search<2>(seed, 400)) return 1;
  if (search<3>(seed, 400)) return 1;
  printf("no failing input found: counterexample inputs and %d random histories agree with the sliding-window model\n", 800);
  return 0;
}
