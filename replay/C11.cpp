// Native replay for C11: reductions 3D -> 2D (means and covariances), 3x3 <-> 6x6 covariance embedding, SE(3) action of a rigid
// transform on a pose (identity, composition, attitude compared as a rotation), uncertainty ellipse of rotated / rank-deficient covariances.
#include "romea_core_common/geometry/Pose3D.hpp"
#include "romea_core_common/geometry/Pose2D.hpp"
#include "romea_core_common/geometry/Position2D.hpp"
#include "romea_core_common/geometry/Twist3D.hpp"
#include "romea_core_common/geometry/PoseAndTwist3D.hpp"
#include "romea_core_common/geometry/Ellipse.hpp"
#include "romea_core_common/math/Matrix.hpp"
#include "romea_core_common/math/EulerAngles.hpp"
#include <Eigen/Eigenvalues>
#include <Eigen/Geometry>
#include <map>
#include <string>
#include <random>
#include <cmath>
#include <cstdio>
#include <cstdlib>
using namespace romea::core;
static int fails = 0;
#define FAIL(...) do { if (fails < 10) { printf("FAILING-INPUT: "); printf(__VA_ARGS__); printf("\n"); } ++fails; } while (0)

static Eigen::Matrix<double, 6, 6> randomPSD(std::mt19937 & rng, int rank)
{
  Eigen::Matrix<double, 6, 6> A = Eigen::Matrix<double, 6, 6>::Zero();
  for (int r = 0; r < rank; ++r) { Eigen::Matrix<double, 6, 1> v; for (int i = 0; i < 6; ++i) v[i] = (double)(rng() % 2001) / 1000 - 1; A += v * v.transpose() * ((rng() % 100) + 1); }
  return A;
}

static void check_ellipse(const Ellipse & e, const Eigen::Matrix2d & C, double sigma, const char * what);
static void ellipse_case(const Eigen::Matrix2d & C, double sigma, const char * what)
{
  check_ellipse(Ellipse(Eigen::Vector2d(1, 2), C, sigma), C, sigma, what);
  // the same covariance through the two uncertaintyEllipse overloads
  Position2D p2; p2.position = Eigen::Vector2d(1, 2); p2.covariance = C;
  check_ellipse(uncertaintyEllipse(p2, sigma), C, sigma, "uncertaintyEllipse(Position2D)");
  Pose2D q2; q2.position = Eigen::Vector2d(1, 2); q2.yaw = 0.3; q2.covariance.setIdentity(); q2.covariance.block<2, 2>(0, 0) = C;
  check_ellipse(uncertaintyEllipse(q2, sigma), C, sigma, "uncertaintyEllipse(Pose2D)");
}
static void check_ellipse(const Ellipse & e, const Eigen::Matrix2d & C, double sigma, const char * what)
{
  double a = e.getMajorRadius(), b = e.getMinorRadius(), th = e.getOrientation();
  double scale = C.norm() + 1e-300;
  if (!(a >= b && b >= 0) || !std::isfinite(a) || !std::isfinite(b)) { FAIL("%s cov=[%.17g %.17g; %.17g %.17g] sigma=%g: radii not ordered/non-negative (major=%g minor=%g)", what, C(0, 0), C(0, 1), C(1, 0), C(1, 1), sigma, a, b); return; }
  Eigen::Matrix2d R; R << std::cos(th), -std::sin(th), std::sin(th), std::cos(th);
  Eigen::Matrix2d back = R * Eigen::Vector2d(a * a, b * b).asDiagonal() * R.transpose() / (sigma * sigma);
  if ((back - C).norm() > 1e-8 * scale) FAIL("%s cov=[%.17g %.17g; %.17g %.17g] sigma=%g: R diag(major^2,minor^2) R^T / sigma^2 differs from the covariance by %g", what, C(0, 0), C(0, 1), C(1, 0), C(1, 1), sigma, (back - C).norm());
}

int main(int argc, char ** argv)
{
  std::map<std::string, std::string> A;
  for (int i = 1; i < argc; ++i) { std::string a(argv[i]); auto p = a.find('='); if (p != std::string::npos) A[a.substr(0, p)] = a.substr(p + 1); }
  std::mt19937 rng(A.count("seed") ? (unsigned)atol(A["seed"].c_str()) : 0);
  int sel[3] = {0, 1, 5};
  for (int k = 0; k < 300; ++k) {
    Pose3D p; for (int i = 0; i < 3; ++i) p.position[i] = (double)(rng() % 20001) - 10000;
    p.orientation = Eigen::Vector3d(((double)(rng() % 6001) / 1000 - 3), ((double)(rng() % 3001) / 1000 - 1.5), ((double)(rng() % 6001) / 1000 - 3));
    p.covariance = randomPSD(rng, 1 + k % 6);
    Pose2D q = toPose2D(p);
    if (q.position.x() != p.position.x() || q.position.y() != p.position.y() || q.yaw != p.orientation.z()) FAIL("toPose2D does not keep x, y, yaw");
    for (int i = 0; i < 3; ++i) for (int j = 0; j < 3; ++j) if (q.covariance(i, j) != p.covariance(sel[i], sel[j])) FAIL("toPose2D covariance (%d,%d) is not the 3D entry (%d,%d)", i, j, sel[i], sel[j]);
    Position3D pos = toPosition3D(p);
    if (pos.position != p.position || pos.covariance != p.covariance.block<3, 3>(0, 0)) FAIL("toPosition3D does not keep the position and its 3x3 covariance block");
    Twist3D t; t.linearSpeeds = p.position * 0.01; t.angularSpeeds = p.orientation; t.covariance = p.covariance;
    Twist2D t2 = toTwist2D(t);
    if (t2.linearSpeeds.x() != t.linearSpeeds.x() || t2.linearSpeeds.y() != t.linearSpeeds.y() || t2.angularSpeed != t.angularSpeeds.z()) FAIL("toTwist2D does not keep vx, vy, yaw rate");
    for (int i = 0; i < 3; ++i) for (int j = 0; j < 3; ++j) if (t2.covariance(i, j) != t.covariance(sel[i], sel[j])) FAIL("toTwist2D covariance (%d,%d) wrong", i, j);
    Eigen::Matrix3d S = toSe2Covariance(p.covariance);
    if (toSe2Covariance(toSe3Covariance(S)) != S) FAIL("toSe2Covariance(toSe3Covariance(C)) != C");
    if ((S - S.transpose()).norm() > 0) FAIL("planar covariance not symmetric");
    Eigen::SelfAdjointEigenSolver<Eigen::Matrix3d> es(S);
    if (es.eigenvalues().minCoeff() < -1e-9 * (1 + S.norm())) FAIL("planar covariance of a PSD covariance has a negative eigenvalue %g", es.eigenvalues().minCoeff());
    // SE(3) action
    Eigen::Affine3d A1 = Eigen::Translation3d(1, -2, 3) * Eigen::AngleAxisd(((double)(rng() % 6001) / 1000 - 3), Eigen::Vector3d(1, 2, 3).normalized());
    Eigen::Affine3d A2 = Eigen::Translation3d(-4, 5, 0.5) * Eigen::AngleAxisd(((double)(rng() % 6001) / 1000 - 3), Eigen::Vector3d(-1, 0.5, 2).normalized());
    Pose3D id = Eigen::Affine3d::Identity() * p;
    if ((id.position - p.position).norm() > 1e-9) FAIL("identity transform moves the position");
    if ((eulerAnglesToRotation3D(id.orientation) - eulerAnglesToRotation3D(p.orientation)).norm() > 1e-9) FAIL("identity transform changes the attitude (angles %g,%g,%g)", p.orientation[0], p.orientation[1], p.orientation[2]);
    Pose3D a1 = A1 * p;
    if ((a1.position - (A1 * p.position)).norm() > 1e-6) FAIL("transformed position is not R p + T");
    if ((eulerAnglesToRotation3D(a1.orientation) - A1.rotation() * eulerAnglesToRotation3D(p.orientation)).norm() > 1e-7 && std::fabs(std::cos(a1.orientation[1])) > 1e-3) FAIL("transformed attitude is not R * R(pose) (angles %g,%g,%g)", p.orientation[0], p.orientation[1], p.orientation[2]);
    Pose3D a21 = A2 * a1, d = (A2 * A1) * p;
    if ((a21.position - d.position).norm() > 1e-6 || ((eulerAnglesToRotation3D(a21.orientation) - eulerAnglesToRotation3D(d.orientation)).norm() > 1e-7 && std::fabs(std::cos(d.orientation[1])) > 1e-3 && std::fabs(std::cos(a1.orientation[1])) > 1e-3)) FAIL("successive transforms do not compose");
  }
  // SE(3) action for very small rotations (any axis) of poses far from the origin, and many small steps against their composition
  for (double ang : {1e-6, 8e-7, 3e-8, 1e-4}) for (int ax = 0; ax < 3; ++ax) {
    Eigen::Vector3d axis = Eigen::Vector3d::Unit(ax);
    Eigen::Affine3d A = Eigen::Translation3d(0.5, -0.25, 0.125) * Eigen::AngleAxisd(ang, axis);
    Pose3D p; p.position = Eigen::Vector3d(1e4, -1e4, 5e3); p.orientation = Eigen::Vector3d(0.1, -0.2, 0.3); p.covariance.setIdentity();
    Pose3D r = A * p;
    Eigen::Vector3d want = A * p.position;
    if ((r.position - want).norm() > 1e-9 * (1 + want.norm())) FAIL("rotation of %g rad about axis %d, pose at (1e4,-1e4,5e3): position is %.3g away from R p + T", ang, ax, (r.position - want).norm());
    if ((eulerAnglesToRotation3D(r.orientation) - A.rotation() * eulerAnglesToRotation3D(p.orientation)).norm() > 1e-9) FAIL("rotation of %g rad about axis %d: attitude is not R * R(pose) (difference %.3g)", ang, ax, (eulerAnglesToRotation3D(r.orientation) - A.rotation() * eulerAnglesToRotation3D(p.orientation)).norm());
  }
  // attitudes at the edge of the property's domain: 1e-3 .. 5e-3 rad away from gimbal lock on either side, identity and rotations about z
  // (which keep the pitch); near the singularity rotation3DToEulerAngles is ill-conditioned, hence the looser tolerance
  for (double gap : {1.0e-3, 1.1e-3, 1.2e-3, 1.3e-3, 1.4e-3, 2e-3, 5e-3}) for (double sgn : {1.0, -1.0}) for (double roll : {0.0, 0.7, -2.1}) for (double zrot : {0.0, 0.4, -1.9}) {
    Pose3D p; p.position = Eigen::Vector3d(1, 2, 3); p.orientation = Eigen::Vector3d(roll, sgn * (M_PI / 2 - gap), 0.3); p.covariance.setIdentity();
    Eigen::Affine3d A = Eigen::Translation3d(0.5, -0.25, 0.125) * Eigen::AngleAxisd(zrot, Eigen::Vector3d::UnitZ());
    Pose3D r = A * p;
    double err = (eulerAnglesToRotation3D(r.orientation) - A.rotation() * eulerAnglesToRotation3D(p.orientation)).norm();
    if (err > 1e-6) FAIL("attitude (%g, %s(pi/2 - %g), 0.3), %g rad from gimbal lock, rotation of %g rad about z: attitude of the result differs from R * R(pose) by %.3g", roll, sgn > 0 ? "+" : "-", gap, gap, zrot, err);
  }
  {
    Eigen::Affine3d step = Eigen::Translation3d(1e-3, 0, 0) * Eigen::AngleAxisd(1e-6, Eigen::Vector3d::UnitZ()), all = Eigen::Affine3d::Identity();
    Pose3D p; p.position = Eigen::Vector3d(100, 50, 0); p.orientation = Eigen::Vector3d(0, 0, 0.2); p.covariance.setIdentity();
    Pose3D q = p;
    for (int k = 0; k < 4000; ++k) { q = step * q; all = step * all; }
    Pose3D d = all * p;
    if ((q.position - d.position).norm() > 1e-6) FAIL("4000 steps of (1e-3 m, 1e-6 rad) against their composition: positions differ by %.3g", (q.position - d.position).norm());
    if ((eulerAnglesToRotation3D(q.orientation) - eulerAnglesToRotation3D(d.orientation)).norm() > 1e-7) FAIL("4000 small steps against their composition: attitudes differ by %.3g", (eulerAnglesToRotation3D(q.orientation) - eulerAnglesToRotation3D(d.orientation)).norm());
  }
  // ellipses: diagonal, rotated, rank-deficient (v v^T), scaled
  double sigmas[] = {0.5, 1, 3, 10};
  for (double vx : {0.0, 0.25, 1.0, 4.0}) for (double vy : {0.0, 0.25, 1.0, 4.0}) if (vx + vy > 0) { Eigen::Matrix2d C; C << vx, 0, 0, vy; ellipse_case(C, 3, "axis-aligned"); }
  for (int k = 0; k < 400; ++k) {
    Eigen::Matrix2d C;
    if (k % 4 == 0) { Eigen::Vector2d v((double)(rng() % 601) / 100 - 3, (double)(rng() % 601) / 100 - 3); C = v * v.transpose(); }
    else { double th = (double)(rng() % 6283) / 1000, s0 = (double)(rng() % 10000) / 10 + 1e-3, s1 = s0 * ((k % 4 == 1) ? 1e-8 : (double)(rng() % 1000) / 1000); Eigen::Matrix2d R; R << std::cos(th), -std::sin(th), std::sin(th), std::cos(th); C = R * Eigen::Vector2d(s0, s1).asDiagonal() * R.transpose(); C = ((C + C.transpose()) / 2).eval(); }
    ellipse_case(C, sigmas[k % 4], k % 4 == 0 ? "rank-deficient" : "rotated");
    Position2D p2; p2.position = Eigen::Vector2d(1, 2); p2.covariance = C;
    Ellipse e = uncertaintyEllipse(p2, sigmas[k % 4]);
    if (!(e.getMajorRadius() >= e.getMinorRadius() && e.getMinorRadius() >= 0)) FAIL("uncertaintyEllipse(Position2D) cov=[%.17g %.17g; %.17g %.17g]: major=%g minor=%g", C(0, 0), C(0, 1), C(1, 0), C(1, 1), e.getMajorRadius(), e.getMinorRadius());
  }
  if (fails) { printf("%d failing checks\n", fails); return 1; }
  printf("no failing input found: reductions, covariance embedding, SE(3) action and uncertainty ellipses agree with the property\n");
  return 0;
}
