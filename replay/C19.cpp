// Native replay for C19: the mutex-guarded classes of /repo under real threads, built with -fsanitize=thread.
// A violation shows either as a ThreadSanitizer data-race report (non-zero exit) or as a 'FAILING-INPUT:' line for a
// value no sequential ordering of the calls can produce (torn report, value consumed twice, ...).
#include <atomic>
#include <cmath>
#include <cstdio>
#include <cstdlib>
#include <cstring>
#include <map>
#include <set>
#include <string>
#include <thread>
#include <vector>
#include "romea_core_common/concurrency/SharedVariable.hpp"
#include "romea_core_common/concurrency/SharedOptionalVariable.hpp"
#include "romea_core_common/monitoring/OnlineAverage.hpp"
#include "romea_core_common/monitoring/OnlineVariance.hpp"
#include "romea_core_common/monitoring/RateMonitoring.hpp"
#include "romea_core_common/diagnostic/CheckupEqualTo.hpp"
#include "romea_core_common/diagnostic/CheckupGreaterThan.hpp"
#include "romea_core_common/diagnostic/CheckupLowerThan.hpp"
#include "romea_core_common/diagnostic/CheckupRate.hpp"
#include "romea_core_common/diagnostic/CheckupReliability.hpp"

using namespace romea::core;
static std::atomic<int> failures{0};
static void fail(const std::string & what)
{
  if (failures.fetch_add(1) < 5) {printf("FAILING-INPUT: %s\n", what.c_str());}
}

struct Pair { double a, b; };   // a 16-byte payload: a torn read shows as a != b

template<typename Report>
static void checkReport(const Report & r, const char * kind, double target, double eps)
{
  if (r.diagnostics.size() != 1 || r.info.size() != 1) {fail(std::string(kind) + ": report shape"); return;}
  const auto & d = r.diagnostics.front();
  const std::string & name = r.info.begin()->first;
  const std::string & val = r.info.begin()->second;
  if (val.empty()) {return;}                      // initial or stale report
  double v = atof(val.c_str());
  bool low = v < target - eps - 1e-6, high = v > target + eps + 1e-6, mid = v > target - eps + 1e-6 && v < target + eps - 1e-6;
  std::string m = d.message;
  if (!strcmp(kind, "equal")) {
    if (low && (d.status != DiagnosticStatus::ERROR || m != name + " is too low.")) {fail("equal-to report: value " + val + " with message '" + m + "'");}
    if (high && (d.status != DiagnosticStatus::ERROR || m != name + " is too high.")) {fail("equal-to report: value " + val + " with message '" + m + "'");}
    if (mid && (d.status != DiagnosticStatus::OK || m != name + " is OK.")) {fail("equal-to report: value " + val + " with message '" + m + "'");}
  } else if (!strcmp(kind, "greater")) {
    if (v > target - eps + 1e-6 && (d.status != DiagnosticStatus::OK || m != name + " is OK.")) {fail("greater-than report: value " + val + " with message '" + m + "'");}
    if (low && (d.status != DiagnosticStatus::ERROR || m != name + " is too low.")) {fail("greater-than report: value " + val + " with message '" + m + "'");}
  } else if (!strcmp(kind, "lower")) {
    if (v < target + eps - 1e-6 && (d.status != DiagnosticStatus::OK || m != name + " is OK.")) {fail("lower-than report: value " + val + " with message '" + m + "'");}
    if (high && (d.status != DiagnosticStatus::ERROR || m != name + " is too high.")) {fail("lower-than report: value " + val + " with message '" + m + "'");}
  }
}

int main(int argc, char ** argv)
{
  unsigned seed = 1;
  for (int i = 1; i < argc; i++) {if (!strncmp(argv[i], "seed=", 5)) {seed = atoi(argv[i] + 5);}}
  srand(seed);
  const int N = 20000, R = 3;
  {  // shared variable: never observed half-written
    SharedVariable<Pair> sv(Pair{0, 0});
    std::vector<std::thread> th;
    th.emplace_back([&] {for (int i = 1; i <= N; i++) {sv.store(Pair{double(i), double(i)}); if (i % 7 == 0) {sv = Pair{double(-i), double(-i)};}}});
    for (int r = 0; r < R; r++) {th.emplace_back([&] {for (int i = 0; i < N; i++) {Pair p = (i & 1) ? sv.load() : Pair(sv); if (p.a != p.b) {fail("SharedVariable observed half-written");}}});}
    for (auto & t : th) {t.join();}
  }
  {  // shared optional: every value consumed was stored, at most one consumer gets it, per-producer store order
    SharedOptionalVariable<long> so;
    const int P = 2, C = 3;
    std::vector<std::vector<long>> got(C);
    std::atomic<int> producersDone{0};
    std::vector<std::thread> th;
    for (int p = 0; p < P; p++) {th.emplace_back([&, p] {for (long i = 1; i <= N; i++) {so.store(p * 1000000L + i);} producersDone++;});}
    for (int c = 0; c < C; c++) {th.emplace_back([&, c] {while (producersDone.load() < P) {auto v = so.consume(); if (v) {got[c].push_back(*v);}}});}
    for (auto & t : th) {t.join();}
    std::set<long> seen;
    for (int c = 0; c < C; c++) {
      std::map<long, long> last;
      for (long v : got[c]) {
        long p = v / 1000000L, i = v % 1000000L;
        if (p < 0 || p >= P || i < 1 || i > N) {fail("SharedOptionalVariable handed out a value that was never stored");}
        if (!seen.insert(v).second) {fail("SharedOptionalVariable handed one stored value to two consumers");}
        if (last.count(p) && last[p] >= i) {fail("SharedOptionalVariable handed out values against store order");}
        last[p] = i;
      }
    }
  }
  {  // online statistics
    OnlineAverage oa(2, 8); OnlineVariance ov(2, 8);
    std::vector<std::thread> th;
    th.emplace_back([&] {for (int i = 0; i < N; i++) {oa.update(1.0); ov.update(1.0); if (i % 1000 == 999) {oa.reset(); ov.reset();}}});
    for (int r = 0; r < R; r++) {
      th.emplace_back([&] {
          for (int i = 0; i < N; i++) {
            double a = oa.getAverage(); bool av = oa.isAvailable(); double v = ov.getVariance(); bool av2 = ov.isAvailable(); (void)av; (void)av2;
            if (!std::isnan(a) && std::fabs(a - 1.0) > 1e-9) {fail("OnlineAverage of constant samples 1.0 read as " + std::to_string(a));}
            if (!std::isnan(v) && std::fabs(v) > 1e-6 && std::fabs(v) < 1e300) { /* variance of a partially filled window is not pinned by C19 */}
          }
        });
    }
    for (auto & t : th) {t.join();}
  }
  {  // value check-ups: every report copy belongs to one evaluation
    CheckupEqualTo<double> ce("foo", 1.0, 0.1); CheckupGreaterThan<double> cg("foo", 1.0, 0.1); CheckupLowerThan<double> cl("foo", 1.0, 0.1);
    CheckupReliability crel("foo", 0.3, 0.6);
    std::vector<std::thread> th;
    th.emplace_back([&] {
        const double vals[3] = {0.5, 1.0, 1.5};
        for (int i = 0; i < N; i++) {double v = vals[i % 3]; ce.evaluate(v); cg.evaluate(v); cl.evaluate(v); crel.evaluate(v / 2); if (i % 997 == 0) {ce.timeout(); cg.timeout(); cl.timeout();}}
      });
    for (int r = 0; r < R; r++) {
      th.emplace_back([&] {
          for (int i = 0; i < N / 2; i++) {
            DiagnosticReport a = ce.getReport(), b = cg.getReport(), c = cl.getReport(), d = crel.getReport();
            checkReport(a, "equal", 1.0, 0.1); checkReport(b, "greater", 1.0, 0.1); checkReport(c, "lower", 1.0, 0.1); (void)d;
          }
        });
    }
    for (auto & t : th) {t.join();}
  }
  {  // rate monitor and rate check-ups: data thread vs heartbeat thread vs report readers
    RateMonitoring rm(10.0);
    CheckupEqualToRate cre("foo", 10.0, 0.5); CheckupGreaterThanRate crg("foo", 10.0, 0.5);
    std::atomic<long long> now{0};
    std::vector<std::thread> th;
    th.emplace_back([&] {for (int i = 1; i <= N; i++) {long long t = i * 100000000LL; now = t; Duration d(t); rm.update(d); cre.evaluate(d); crg.evaluate(d);}});
    th.emplace_back([&] {for (int i = 0; i < N; i++) {Duration d(now.load() + (i % 5 == 0 ? 700000000LL : 0)); rm.timeout(d); cre.heartBeatCallback(d); crg.heartBeatCallback(d); (void)rm.getRate();}});
    for (int r = 0; r < 2; r++) {th.emplace_back([&] {for (int i = 0; i < N / 2; i++) {DiagnosticReport a = cre.getReport(), b = crg.getReport(); if (a.diagnostics.size() != 1 || b.diagnostics.size() != 1) {fail("rate check-up report shape");}}});}
    for (auto & t : th) {t.join();}
  }
  if (failures.load()) {return 1;}
  printf("no inconsistent value observed (ThreadSanitizer reports, if any, are printed above and set the exit code)\n");
  return 0;
}
