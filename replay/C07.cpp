// Native replay for C07: LeastSquares<float|double> on random full-rank problems of estimate size 1..8: normal-equation residual, Cholesky and SVD
// paths agree, weighted variant against the rows scaled by their weights, affine preconditioner applied as A x + b, and a solver object reused
// for a smaller problem after a larger one against a fresh solver.
#include "romea_core_common/regression/leastsquares/LeastSquares.hpp"
#include <Eigen/Dense>
#include <cstdio>
#include <map>
#include <random>
#include <string>
using namespace romea::core;
static int fails = 0;
#define FAIL(...) do { if (fails < 20) { printf("FAILING-INPUT: "); printf(__VA_ARGS__); printf("\n"); } ++fails; } while (0)
static double u01(std::mt19937 & r) { return (double)(r() % 2000001) / 1000000.0 - 1.0; }

template<typename S> static void run(std::mt19937 & rng, double tol, const char * sname)
{
  using Mat = Eigen::Matrix<S, Eigen::Dynamic, Eigen::Dynamic>; using Vec = Eigen::Matrix<S, Eigen::Dynamic, 1>;
  for (int k = 0; k < 120; ++k) {
    int n = 1 + k % 8, m = n + (int)(rng() % 30), mbig = m + 1 + (int)(rng() % 40);
    Mat J(m, n); Vec Y(m), W(m);
    for (int i = 0; i < m; ++i) { for (int j = 0; j < n; ++j) J(i, j) = (S)(u01(rng) + (i % n == j ? 3.0 : 0.0)); Y(i) = (S)(u01(rng) * 5); W(i) = (S)(0.25 + (rng() % 8) * 0.25); }
    auto fill = [&](LeastSquares<S> & ls) { ls.setDataSize(m); for (int i = 0; i < m; ++i) { for (int j = 0; j < n; ++j) ls.getJ()(i, j) = J(i, j); ls.getY()(i) = Y(i); } };
    auto dirty = [&](LeastSquares<S> & ls) { ls.setDataSize(mbig); for (int i = 0; i < mbig; ++i) { for (int j = 0; j < n; ++j) ls.getJ()(i, j) = (S)(40 + u01(rng)); ls.getY()(i) = (S)9; ls.getW()(i) = (S)1; } ls.estimateUsingSVD(); };
    Mat JtJ = J.transpose() * J; Vec JtY = J.transpose() * Y;
    double scale = 1 + JtY.template cast<double>().norm();
    for (int reuse = 0; reuse < 2; ++reuse) {
      const char * how = reuse ? "object reused after a larger problem" : "fresh object";
      { LeastSquares<S> ls(n); if (reuse) dirty(ls); fill(ls); Vec x = ls.estimateUsingCholeskyDecomposition();
        double r = (JtJ * x - JtY).template cast<double>().norm();
        if (!(r <= tol * scale * JtJ.template cast<double>().norm())) FAIL("%s, %d unknowns, %d rows, Cholesky path, %s: normal-equation residual |JtJ x - JtY| = %.3g", sname, n, m, how, r);
        LeastSquares<S> ls2(n); if (reuse) dirty(ls2); fill(ls2); Vec xs = ls2.estimateUsingSVD();
        double d = (x - xs).template cast<double>().norm();
        if (!(d <= tol * 100 * (1 + x.template cast<double>().norm()))) FAIL("%s, %d unknowns, %d rows, %s: Cholesky and SVD paths differ by %.3g", sname, n, m, how, d);
        LeastSquares<S> fresh(n); fill(fresh); Vec xf = fresh.estimateUsingCholeskyDecomposition();
        if (!((x - xf).template cast<double>().norm() <= tol * 100 * (1 + xf.template cast<double>().norm()))) FAIL("%s, %d unknowns, %d rows, %s: result differs from a fresh solver by %.3g", sname, n, m, how, (x - xf).template cast<double>().norm());
        // affine preconditioner
        Mat Ac = Mat::Zero(n, n); Vec Bc(n); for (int i = 0; i < n; ++i) { Ac(i, i) = (S)(0.5 + (rng() % 6) * 0.5); if (i + 1 < n) Ac(i, i + 1) = (S)0.25; Bc(i) = (S)(u01(rng) * 3); }
        LeastSquares<S> ls3(n); if (reuse) dirty(ls3); fill(ls3); ls3.setPreconditionner(Ac, Bc); Vec xp = ls3.estimateUsingCholeskyDecomposition();
        Vec wantp = Ac * xf + Bc;
        if (!((xp - wantp).template cast<double>().norm() <= tol * 100 * (1 + wantp.template cast<double>().norm()))) FAIL("%s, %d unknowns, %d rows, %s: preconditioned result differs from Ac x + Bc by %.3g", sname, n, m, how, (xp - wantp).template cast<double>().norm());
      }
      { // a linear preconditioner configured after an affine one: the old offset must be gone
        Mat A1 = Mat::Identity(n, n) * (S)2, A2 = Mat::Identity(n, n) * (S)0.5; Vec b1 = Vec::Constant(n, (S)3);
        LeastSquares<S> ls(n); if (reuse) dirty(ls); fill(ls); ls.setPreconditionner(A1, b1); ls.estimateUsingCholeskyDecomposition(); ls.setPreconditionner(A2);
        Vec x = ls.estimateUsingCholeskyDecomposition();
        LeastSquares<S> fresh(n); fill(fresh); Vec wantx = A2 * fresh.estimateUsingCholeskyDecomposition();
        if (!((x - wantx).template cast<double>().norm() <= tol * 100 * (1 + wantx.template cast<double>().norm()))) FAIL("%s, %d unknowns, %d rows, %s: setPreconditionner(A2) after setPreconditionner(A1, b1): result differs from A2 x by %.3g (stale offset?)", sname, n, m, how, (x - wantx).template cast<double>().norm());
      }
      { LeastSquares<S> ls(n); if (reuse) dirty(ls); fill(ls); for (int i = 0; i < m; ++i) ls.getW()(i) = W(i);
        Vec x = ls.weightedEstimate();
        Mat Jw = W.asDiagonal() * J; Vec Yw = W.asDiagonal() * Y;
        double r = (Jw.transpose() * Jw * x - Jw.transpose() * Yw).template cast<double>().norm();
        if (!(r <= tol * 10 * (1 + (Jw.transpose() * Yw).template cast<double>().norm()) * (Jw.transpose() * Jw).template cast<double>().norm())) FAIL("%s, %d unknowns, %d rows, weighted estimate, %s: residual of the weighted normal equations = %.3g", sname, n, m, how, r);
      }
    }
  }
}

int main(int argc, char ** argv)
{
  std::map<std::string, std::string> A;
  for (int i = 1; i < argc; ++i) { std::string a(argv[i]); auto p = a.find('='); if (p != std::string::npos) A[a.substr(0, p)] = a.substr(p + 1); }
  std::mt19937 rng(A.count("seed") ? (unsigned)atol(A["seed"].c_str()) : 0);
  run<double>(rng, 1e-11, "double");
  run<float>(rng, 2e-4, "float");
  if (fails) { printf("%d failing checks\n", fails); return 1; }
  printf("no failing input found: residuals vanish, Cholesky/SVD agree, weights and preconditioner applied, reused solver agrees with a fresh one\n");
  return 0;
}
