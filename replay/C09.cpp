// Native replay for C09: NormalAndCurvatureEstimation<Eigen::Vector2d|Vector3d> on planar, curved and noisy clouds: unit length, sensor-facing,
// least-variance direction of the k nearest neighbours (brute-force neighbours + an independent eigen-decomposition), exact normal and zero
// curvature on a plane / line not through the origin, curvature in [0, 1/DIM], rotation equivariance.
#include "romea_core_common/pointset/algorithms/NormalAndCurvatureEstimation.hpp"
#include <Eigen/Dense>
#include <algorithm>
#include <cstdio>
#include <map>
#include <random>
#include <string>
using namespace romea::core;
static int fails = 0;
#define FAIL(...) do { if (fails < 20) { printf("FAILING-INPUT: "); printf(__VA_ARGS__); printf("\n"); } ++fails; } while (0)
static int forced_k = 0;     // 0: random neighbourhood size; else the size to use (the property's quantifier: 3..30)
static double u01(std::mt19937 & r) { return (double)(r() % 2000001) / 1000000.0 - 1.0; }

template<int D> static void cloud(std::mt19937 & rng, int kind)
{
  using V = Eigen::Matrix<double, D, 1>; using M = Eigen::Matrix<double, D, D>;
  int n = 40 + rng() % 60, k = forced_k ? forced_k : 5 + (int)(rng() % 10);
  V nrm; for (int i = 0; i < D; ++i) nrm[i] = u01(rng); if (nrm.norm() < 0.2) nrm[0] += 1; nrm.normalize();
  double off = 3 + (rng() % 50) / 10.0;                     // the plane / line n.x = off does not pass through the origin
  PointSet<V> pts;
  for (int i = 0; i < n; ++i) {
    V p; for (int a = 0; a < D; ++a) p[a] = u01(rng) * 4;
    p -= nrm * (nrm.dot(p) - off);                          // on the plane
    if (kind == 1) p += nrm * 0.02 * u01(rng);              // noisy
    if (kind == 2) p += nrm * 0.05 * p.squaredNorm() / 16;  // curved
    pts.push_back(p);
  }
  NormalSet<V> normals(n); std::vector<double> curv(n);
  NormalAndCurvatureEstimation<V> est(k);
  est.compute(pts, normals, curv);
  const char * kn = kind == 0 ? "planar" : (kind == 1 ? "noisy" : "curved");
  for (int i = 0; i < n; ++i) {
    if (!(std::fabs(normals[i].norm() - 1) <= 1e-9)) { FAIL("%dD %s cloud, k=%d, point %d: normal has length %.12g", D, kn, k, i, normals[i].norm()); break; }
    if (!(normals[i].dot(pts[i]) <= 1e-12)) { FAIL("%dD %s cloud, k=%d, point %d: normal points away from the sensor origin (normal . point = %.3g)", D, kn, k, i, normals[i].dot(pts[i])); break; }
    if (!(curv[i] >= -1e-12 && curv[i] <= 1.0 / D + 1e-12)) { FAIL("%dD %s cloud, k=%d, point %d: curvature %.6g outside [0, 1/%d]", D, kn, k, i, curv[i], D); break; }
    if (kind == 0) {
      if (!((normals[i] + nrm).norm() <= 1e-6)) { FAIL("%dD planar cloud, k=%d, point %d: normal differs from the plane normal turned toward the origin by %.3g", D, k, i, (normals[i] + nrm).norm()); break; }
      if (!(std::fabs(curv[i]) <= 1e-9)) { FAIL("%dD planar cloud, k=%d, point %d: curvature %.3g is not zero", D, k, i, curv[i]); break; }
    }
    // least-variance direction of the k nearest neighbours, independently
    std::vector<int> idx(n); for (int j = 0; j < n; ++j) idx[j] = j;
    std::sort(idx.begin(), idx.end(), [&](int a, int b) { return (pts[a] - pts[i]).squaredNorm() < (pts[b] - pts[i]).squaredNorm(); });
    double dk = (pts[idx[k - 1]] - pts[i]).squaredNorm(), dk1 = (pts[idx[k]] - pts[i]).squaredNorm();
    if (dk1 - dk < 1e-9) continue;                          // tie at the k-th neighbour: the neighbourhood is not unique
    V mean = V::Zero(); for (int j = 0; j < k; ++j) mean += pts[idx[j]]; mean /= k;
    M C = M::Zero(); for (int j = 0; j < k; ++j) C += (pts[idx[j]] - mean) * (pts[idx[j]] - mean).transpose(); C /= k;
    Eigen::SelfAdjointEigenSolver<M> es(C);
    if (es.eigenvalues()[1] - es.eigenvalues()[0] < 1e-6 * es.eigenvalues()[D - 1]) continue;   // the property's eigen-gap condition
    V v = es.eigenvectors().col(0);
    if (!(std::min((v - normals[i]).norm(), (v + normals[i]).norm()) <= 1e-6)) { FAIL("%dD %s cloud, k=%d, point %d: normal is not the least-variance direction of the %d nearest neighbours (difference %.3g)", D, kn, k, i, k, std::min((v - normals[i]).norm(), (v + normals[i]).norm())); break; }
    double cw = es.eigenvalues()[0] / es.eigenvalues().sum();
    if (!(std::fabs(cw - curv[i]) <= 1e-9)) { FAIL("%dD %s cloud, k=%d, point %d: curvature %.9g, smallest eigenvalue over the sum gives %.9g", D, kn, k, i, curv[i], cw); break; }
  }
  // rotation about the origin rotates every normal
  M R = M::Identity(); double th = u01(rng) * 3;
  if (D == 2) { R(0, 0) = std::cos(th); R(0, 1) = -std::sin(th); R(1, 0) = std::sin(th); R(1, 1) = std::cos(th); }
  else { Eigen::Matrix3d R3 = Eigen::AngleAxisd(th, Eigen::Vector3d(0.3, -1, 2).normalized()).toRotationMatrix(); for (int a = 0; a < D; ++a) for (int b = 0; b < D; ++b) R(a, b) = R3(a, b); }
  PointSet<V> rp; for (auto & p : pts) rp.push_back(R * p);
  NormalSet<V> rn(n); std::vector<double> rc(n);
  NormalAndCurvatureEstimation<V> est2(k);
  est2.compute(rp, rn, rc);
  if (kind == 0) for (int i = 0; i < n; ++i) if (!((rn[i] - R * normals[i]).norm() <= 1e-6)) { FAIL("%dD planar cloud rotated by %.3g rad about the origin: normal %d is not the rotated normal (difference %.3g)", D, th, i, (rn[i] - R * normals[i]).norm()); break; }
}

// a dense cloud far from the origin (georeferenced coordinates): exactly representable points on an axis-aligned plane / line at 5e6 with a
// spacing of 2^-6; the neighbourhood spread is tiny compared with the range but its smallest eigenvalue is exactly zero and distinct
template<int D> static void far_dense(int k)
{
  using V = Eigen::Matrix<double, D, 1>;
  PointSet<V> pts; const double h = 1.0 / 64;
  if (D == 3) { for (int i = 0; i < 25; ++i) for (int j = 0; j < 25; ++j) { V p; p[0] = 3e6 + i * h; p[1] = -2e6 + j * h; p[D - 1] = 5e6; pts.push_back(p); } }
  else { for (int i = 0; i < 200; ++i) { V p; p[0] = 3e6 + i * h; p[D - 1] = 5e6; pts.push_back(p); } }
  size_t n = pts.size();
  NormalSet<V> normals(n); std::vector<double> curv(n);
  NormalAndCurvatureEstimation<V> est(k);
  est.compute(pts, normals, curv);
  V want = V::Zero(); want[D - 1] = -1;
  for (size_t i = 0; i < n; ++i) {
    if (!((normals[i] - want).norm() <= 1e-6)) { FAIL("%dD dense cloud far from the origin (plane/line at 5e6, spacing 2^-6, k=%d), point %zu: normal differs from the surface normal by %.3g", D, k, i, (normals[i] - want).norm()); break; }
    if (!(std::fabs(curv[i]) <= 1e-9)) { FAIL("%dD dense cloud far from the origin, k=%d, point %zu: curvature %.3g is not zero", D, k, i, curv[i]); break; }
  }
}

int main(int argc, char ** argv)
{
  std::map<std::string, std::string> A;
  for (int i = 1; i < argc; ++i) { std::string a(argv[i]); auto p = a.find('='); if (p != std::string::npos) A[a.substr(0, p)] = a.substr(p + 1); }
  std::mt19937 rng(A.count("seed") ? (unsigned)atol(A["seed"].c_str()) : 0);
  for (int k = 0; k < 30; ++k) { cloud<3>(rng, k % 3); cloud<2>(rng, k % 3); }
  far_dense<3>(12); far_dense<2>(6);
  for (int k : {3, 4, 30}) { forced_k = k; for (int r = 0; r < 4; ++r) { cloud<3>(rng, 2); cloud<2>(rng, 2); } }
  forced_k = 0;
  if (fails) { printf("%d failing checks\n", fails); return 1; }
  printf("no failing input found: normals are unit, sensor-facing, least-variance directions; planar clouds exact with zero curvature; curvature in range; rotation equivariant\n");
  return 0;
}
