#!/bin/bash
# run_benign.sh [property ...]: every behaviour-preserving edit of benign/ against the check of its property (scratch worktrees);
# expected exit 0 or 2, never 1. Output: .work/benign_final.log
cd "$(dirname "$0")/.."
PAR=${PAR:-3}
PROPS=${@:-$(ls benign/*.diff | sed 's#.*/benign_##; s#_.*##' | sort -u)}
run_prop() {
  p=$1
  for d in benign/benign_${p}_*.diff; do
    tools/try_benign.sh /verif/$d $p 2>&1 | head -2 | tr '\n' ' ' | cut -c1-220
    echo
  done
}
export -f run_prop
echo $PROPS | tr ' ' '\n' | xargs -P $PAR -I{} bash -c 'run_prop {}' | tee .work/benign_final.log
