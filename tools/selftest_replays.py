#!/usr/bin/env python3
"""selftest_replays.py [repo]: every native replay driver must build against the tree and, run without a counterexample, must find
no failing input (C12: exactly the entries listed as known findings).  Used during development; not part of any verdict."""
import sys, os, json, subprocess, glob, re
VERIF = os.path.dirname(os.path.dirname(os.path.abspath(__file__)))
REPO = sys.argv[1] if len(sys.argv) > 1 else '/repo'
work = os.path.join(VERIF, '.work', 'selftest'); os.makedirs(work, exist_ok=True)
bad = 0
for src in sorted(glob.glob(os.path.join(VERIF, 'replay', 'C*.cpp'))):
    pid = os.path.basename(src)[:-4]
    mp = os.path.join(VERIF, 'specs', pid, 'meta.json')
    m = json.load(open(mp)) if os.path.exists(mp) else {}
    exe = os.path.join(work, 'r_' + pid)
    cmd = ['g++', '-std=c++17', '-O1', '-DNDEBUG', '-fno-access-control', '-I' + REPO + '/include', '-isystem', '/usr/include/eigen3', src] + \
          [os.path.join(REPO, s) for s in m.get('replay_sources', [])] + ['-o', exe, '-lpthread'] + m.get('replay_flags', [])
    r = subprocess.run(cmd, stdout=subprocess.PIPE, stderr=subprocess.STDOUT, text=True)
    if r.returncode != 0:
        print('%s: DOES NOT BUILD\n%s' % (pid, r.stdout[-1200:])); bad += 1; continue
    try:
        r = subprocess.run([exe, 'seed=1'], stdout=subprocess.PIPE, stderr=subprocess.STDOUT, text=True, timeout=600)
    except subprocess.TimeoutExpired:
        print('%s: timeout' % pid); bad += 1; continue
    fails = sorted(set(re.findall(r'FAILING-INPUT: (\S+)', r.stdout)))
    print('%s: exit=%d %s' % (pid, r.returncode, ('failing: ' + ' '.join(fails)[:300]) if fails else r.stdout.strip().split('\n')[-1][:160]))
    if r.returncode != 0 and pid != 'C12':
        bad += 1
sys.exit(1 if bad else 0)
