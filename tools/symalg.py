"""tiny symbolic algebra for specification-side formulas (back end B): +, -, *, constants, named atoms; formal derivative
with user-supplied atom derivatives; rendering to SMT-LIB terms."""
from emit_smt import add as _add, sub as _sub, mul as _mul, neg as _neg, num


class E:
    def __init__(self, op, *a):
        self.op, self.a = op, a

    def __add__(self, o): return E('+', self, lift(o))
    def __radd__(self, o): return E('+', lift(o), self)
    def __sub__(self, o): return E('-', self, lift(o))
    def __rsub__(self, o): return E('-', lift(o), self)
    def __mul__(self, o): return E('*', self, lift(o))
    def __rmul__(self, o): return E('*', lift(o), self)
    def __neg__(self): return E('neg', self)

    def smt(self, env):
        o = self.op
        if o == 'c': return num(self.a[0])
        if o == 'v': return env[self.a[0]]
        if o == 'neg': return _neg(self.a[0].smt(env))
        x, y = self.a[0].smt(env), self.a[1].smt(env)
        return {'+': _add, '-': _sub, '*': _mul}[o](x, y)

    def d(self, rules):
        """formal derivative; rules: atom name -> E (derivative of the atom), missing atoms are constants"""
        o = self.op
        if o == 'c': return C(0)
        if o == 'v': return rules.get(self.a[0], C(0))
        if o == 'neg': return -self.a[0].d(rules)
        x, y = self.a
        if o == '+': return x.d(rules) + y.d(rules)
        if o == '-': return x.d(rules) - y.d(rules)
        return x.d(rules) * y + x * y.d(rules)


def C(v): return E('c', v)
def V(n): return E('v', n)
def lift(x): return x if isinstance(x, E) else C(x)


def matmul(A, B):
    n, m, p = len(A), len(B), len(B[0])
    out = []
    for i in range(n):
        row = []
        for j in range(p):
            acc = None
            for k in range(m):
                t = A[i][k] * B[k][j]
                acc = t if acc is None else acc + t
            row.append(acc)
        out.append(row)
    return out


def rot_zyx():
    """textbook R = Rz(yaw) * Ry(pitch) * Rx(roll) in the atoms sx,cx (roll), sy,cy (pitch), sz,cz (yaw)"""
    sx, cx, sy, cy, sz, cz = (V(n) for n in ('sx', 'cx', 'sy', 'cy', 'sz', 'cz'))
    Rx = [[C(1), C(0), C(0)], [C(0), cx, -sx], [C(0), sx, cx]]
    Ry = [[cy, C(0), sy], [C(0), C(1), C(0)], [-sy, C(0), cy]]
    Rz = [[cz, -sz, C(0)], [sz, cz, C(0)], [C(0), C(0), C(1)]]
    return matmul(matmul(Rz, Ry), Rx)


DRULES = {'x': {'sx': V('cx'), 'cx': -V('sx')}, 'y': {'sy': V('cy'), 'cy': -V('sy')}, 'z': {'sz': V('cz'), 'cz': -V('sz')}}
