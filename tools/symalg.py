"""tiny symbolic algebra for specification-side formulas (back end B): +, -, *, constants, named atoms; formal derivative
with user-supplied atom derivatives; rendering to SMT-LIB terms."""
from emit_smt import add as _add, sub as _sub, mul as _mul, neg as _neg, num


class E:
    def __init__(self, op, *a):
        self.op, self.a = op, a

    def __add__(self, o): return E('+', self, lift(o))
    def __radd__(self, o): return E('+', lift(o), self)
    def __sub__(self, o): return E('-', self, lift(o))
    def __rsub__(self, o): return E('-', lift(o), self)
    def __mul__(self, o): return E('*', self, lift(o))
    def __rmul__(self, o): return E('*', lift(o), self)
    def __neg__(self): return E('neg', self)

    def smt(self, env):
        o = self.op
        if o == 'c': return num(self.a[0])
        if o == 'v': return env[self.a[0]]
        if o == 'neg': return _neg(self.a[0].smt(env))
        x, y = self.a[0].smt(env), self.a[1].smt(env)
        return {'+': _add, '-': _sub, '*': _mul}[o](x, y)

    def d(self, rules):
        """formal derivative; rules: atom name -> E (derivative of the atom), missing atoms are constants"""
        o = self.op
        if o == 'c': return C(0)
        if o == 'v': return rules.get(self.a[0], C(0))
        if o == 'neg': return -self.a[0].d(rules)
        x, y = self.a
        if o == '+': return x.d(rules) + y.d(rules)
        if o == '-': return x.d(rules) - y.d(rules)
        return x.d(rules) * y + x * y.d(rules)


def C(v): return E('c', v)
def V(n): return E('v', n)
def lift(x): return x if isinstance(x, E) else C(x)


def matmul(A, B):
    n, m, p = len(A), len(B), len(B[0])
    out = []
    for i in range(n):
        row = []
        for j in range(p):
            acc = None
            for k in range(m):
                t = A[i][k] * B[k][j]
                acc = t if acc is None else acc + t
            row.append(acc)
        out.append(row)
    return out


def rot_zyx():
    """textbook R = Rz(yaw) * Ry(pitch) * Rx(roll) in the atoms sx,cx (roll), sy,cy (pitch), sz,cz (yaw)"""
    sx, cx, sy, cy, sz, cz = (V(n) for n in ('sx', 'cx', 'sy', 'cy', 'sz', 'cz'))
    Rx = [[C(1), C(0), C(0)], [C(0), cx, -sx], [C(0), sx, cx]]
    Ry = [[cy, C(0), sy], [C(0), C(1), C(0)], [-sy, C(0), cy]]
    Rz = [[cz, -sz, C(0)], [sz, cz, C(0)], [C(0), C(0), C(1)]]
    return matmul(matmul(Rz, Ry), Rx)


DRULES = {'x': {'sx': V('cx'), 'cx': -V('sx')}, 'y': {'sy': V('cy'), 'cy': -V('sy')}, 'z': {'sz': V('cz'), 'cz': -V('sz')}}


# ------------------------------------------------------------------------------------------------------------------
# formal derivative of an SMT-LIB real term produced from the *code* (back end B terms), by the textbook rules:
#   (u+v)' = u'+v', (uv)' = u'v+uv', (u/v)' = (u'v-uv')/v^2, sin' = cos, cos' = -sin, tan' = 1/cos^2, exp' = exp,
#   log' = 1/u, atan' = 1/(1+u^2), sqrt' = 1/(2 sqrt), pow(u, p)' = p pow(u, p)/u u' for an exponent p free of the variable.
# Terms with ite are rejected.  The rules are part of the trusted base of the properties that use them (C03).
# ------------------------------------------------------------------------------------------------------------------
def sparse(txt):
    toks = txt.replace('(', ' ( ').replace(')', ' ) ').split()
    pos = [0]

    def rd():
        t = toks[pos[0]]; pos[0] += 1
        if t != '(':
            return t
        lst = []
        while toks[pos[0]] != ')':
            lst.append(rd())
        pos[0] += 1
        return lst
    r = rd()
    assert pos[0] == len(toks), 'trailing tokens in term'
    return r


def sshow(t):
    return t if isinstance(t, str) else '(' + ' '.join(sshow(x) for x in t) + ')'


def _occurs(t, var):
    return t == var if isinstance(t, str) else any(_occurs(x, var) for x in t)


def _zero(t): return t in ('0.0', '0')


def _sadd(a, b):
    if _zero(a): return b
    if _zero(b): return a
    return ['+', a, b]


def _ssub(a, b):
    if _zero(b): return a
    if _zero(a): return ['-', b]
    return ['-', a, b]


def _smul(a, b):
    if _zero(a) or _zero(b): return '0.0'
    if a == '1.0': return b
    if b == '1.0': return a
    return ['*', a, b]


def _sdiv(a, b):
    if _zero(a): return '0.0'
    return ['/', a, b]


def _sd(t, var):
    if isinstance(t, str):
        return '1.0' if t == var else '0.0'
    if not _occurs(t, var):
        return '0.0'
    op, a = t[0], t[1:]
    if op == '+':
        r = '0.0'
        for x in a:
            r = _sadd(r, _sd(x, var))
        return r
    if op == '-':
        if len(a) == 1:
            d = _sd(a[0], var)
            return '0.0' if _zero(d) else ['-', d]
        r = _sd(a[0], var)
        for x in a[1:]:
            r = _ssub(r, _sd(x, var))
        return r
    if op == '*':
        if len(a) > 2:
            return _sd(['*', a[0], ['*'] + a[1:]], var)
        u, v = a
        return _sadd(_smul(_sd(u, var), v), _smul(u, _sd(v, var)))
    if op == '/':
        u, v = a
        du, dv = _sd(u, var), _sd(v, var)
        if _zero(dv):
            return _sdiv(du, v)
        return _sdiv(_ssub(_smul(du, v), _smul(u, dv)), ['*', v, v])
    u = a[0]
    du = _sd(u, var)
    if op == 'f_sin': return _smul(['f_cos', u], du)
    if op == 'f_cos': return _smul(['-', ['f_sin', u]], du)
    if op == 'f_exp': return _smul(t, du)
    if op == 'f_log': return _sdiv(du, u)
    if op == 'f_tan': return _sdiv(du, ['*', ['f_cos', u], ['f_cos', u]])
    if op == 'f_atan': return _sdiv(du, ['+', '1.0', ['*', u, u]])
    if op == 'f_sqrt': return _sdiv(du, ['*', '2.0', t])
    if op == 'f_pow':
        if _occurs(a[1], var):
            raise ValueError('pow with a variable exponent')
        return _smul(_smul(a[1], _sdiv(t, u)), du)
    raise ValueError('no differentiation rule for %s' % op)


def sdiff(term, var):
    """d term / d var as an SMT-LIB term (strings in, string out)"""
    return sshow(_sd(sparse(term), var))


# ------------------------------------------------------------------------------------------------------------------
# SmartRotation3D: the representation invariant under which init() is specified (used by the C10 and C12 specs)
# ------------------------------------------------------------------------------------------------------------------
SMART_ELEMENTARY = {   # member -> the four coefficients (row-major index) that init() overwrites; the other five keep the identity's values
    'Rx_': (4, 5, 7, 8), 'dRxdAngleX_': (4, 5, 7, 8),
    'Ry_': (0, 2, 6, 8), 'dRydAngleY_': (0, 2, 6, 8),
    'Rz_': (0, 1, 3, 4), 'dRzdAngleZ_': (0, 1, 3, 4),
}


def smart_rotation_prior_state(B, prefix='prior'):
    """an ARBITRARY state of a SmartRotation3D object that satisfies its representation invariant: in the six elementary matrices the
    coefficients init() never writes hold the identity's values (what every constructor establishes and init() preserves), every other
    scalar of the object - including members this specification does not know - is a free symbol.  init() is specified from such a state,
    so the contract covers re-initialisation of a used object, not only the first initialisation of a fresh one."""
    rot = B.sx.arbitrary_value(('struct', 'SmartRotation3D'), prefix)
    for member, written in SMART_ELEMENTARY.items():
        if member not in rot:
            from front import ExtractError
            raise ExtractError('SmartRotation3D no longer has the member %s' % member)
        for k in range(9):
            if k not in written:
                rot[member][k] = '1.0' if k in (0, 4, 8) else '0.0'
    return rot


def smart_rotation_invariant_vcs(B, rot, name, functions, assume=()):
    """VCs: the object state `rot` satisfies the invariant (identity pattern in the coefficients init() never writes)"""
    from emit_smt import app
    for member, written in SMART_ELEMENTARY.items():
        for k in range(9):
            if k not in written:
                B.vc('%s.%s[%d,%d].keeps_identity_pattern' % (name, member, k // 3, k % 3), app('=', rot[member][k], '1.0' if k in (0, 4, 8) else '0.0'), list(assume), functions=functions)
