#!/usr/bin/env python3
"""
driver.py -- runs the checks of one property: extraction -> back end A (CBMC dfcc) and/or back end B (SMT)
-> obligation table -> evidence/<id>.json -> verdict (exit 0 / 1 + VIOLATION line / 2 no verdict).
"""
import sys, os, json, re, subprocess, time, shutil, hashlib, glob, threading, concurrent.futures as cf

VERIF = os.path.dirname(os.path.dirname(os.path.abspath(__file__)))
sys.path.insert(0, os.path.join(VERIF, 'tools'))
import front, emit_c
from front import ExtractError

REPO = front.REPO
NCPU = int(os.environ.get('VERIF_JOBS', '16'))


def _mem_budget():
    try:
        for l in open('/proc/meminfo'):
            if l.startswith('MemAvailable:'):
                return max(8.0, int(l.split()[1]) / 1048576.0 * 0.75)
    except Exception:
        pass
    return 32.0


MEM_BUDGET_GB = float(os.environ.get('VERIF_MEM_GB', '0')) or _mem_budget()


def log(*a):
    print(*a, file=sys.stderr, flush=True)


def sh(cmd, timeout, cwd=None, mem_kb=12 * 1024 * 1024):
    """run with timeout + address-space limit; returns (rc, stdout, stderr, seconds); rc=-9 on timeout"""
    t0 = time.time()
    pre = 'ulimit -v %d; ' % mem_kb
    try:
        r = subprocess.run(['bash', '-c', pre + 'exec "$@"', 'sh'] + cmd, cwd=cwd, stdout=subprocess.PIPE, stderr=subprocess.PIPE,
                           timeout=timeout, text=True, errors='replace')
        if r.returncode == -9:
            return -99, r.stdout, 'KILLED (signal 9 before the time limit: out of memory?)', time.time() - t0
        return r.returncode, r.stdout, r.stderr, time.time() - t0
    except subprocess.TimeoutExpired as ex:
        return -9, (ex.stdout or b'').decode('utf8', 'replace') if isinstance(ex.stdout, bytes) else (ex.stdout or ''), 'TIMEOUT', time.time() - t0


# ----------------------------------------------------------------------------------------
# back end A
# ----------------------------------------------------------------------------------------
class SpecRun:
    def __init__(self, pid, spec_path, workdir, tier):
        self.pid, self.spec_path, self.workdir, self.tier = pid, spec_path, workdir, tier
        self.name = os.path.splitext(os.path.basename(spec_path))[0]
        self.spec = emit_c.Spec(open(spec_path).read())
        self.prog = front.Program()
        self.cfile = os.path.join(workdir, self.name + '.c')
        self.lines = []
        self.extraction = {}

    def extract(self):
        self.prog.options = dict(self.spec.options)
        for nm, content in self.spec.strings:
            self.prog.intern_string(content)
        for u in self.spec.units:
            path = u[0]
            full = os.path.join(REPO, path) if os.path.exists(os.path.join(REPO, path)) else os.path.join(VERIF, path)
            self.prog.add_unit(full, self.workdir)
        for f in self.spec.functions:
            parts = [x.strip() for x in ' '.join(f).split('|')]
            cname, parent, name = parts[0], parts[1], parts[2]
            opts = {}
            for o in parts[3:]:
                k, _, v = o.partition('=')
                opts[k.strip()] = v.strip()
            self.prog.register(cname, parent if parent != '-' else '', name, sig=opts.get('sig'),
                               const=(None if 'const' not in opts else opts['const'] == '1'),
                               nparams=(None if 'nparams' not in opts else int(opts['nparams'])))
        self.prog.extract_all()
        lock_owned = {}
        if hasattr(self.spec, 'lock_owned'):
            lock_owned = self.spec.lock_owned
        em = emit_c.CEmitter(self.prog, self.spec, lock_owned=self.lock_owned())
        for line in self.spec.prelude.split('\n'):
            m = re.match(r'\s*//@\s*internal\s+([\w, ]+)', line)
            if m:
                em.lock_internal |= {x.strip() for x in m.group(1).split(',')}
        text = em.emit()
        self.structural = em.structural
        open(self.cfile, 'w').write(text)
        self.lines = text.split('\n')
        missing = [k for k, v in em.loops_emitted.items() if not v and k[0] in self.enforced_functions()]
        self.loops_emitted = em.loops_emitted
        self.extraction = {
            'functions': [{'c_name': f.cname, 'qualified_name': f.qual, 'file': f.src_file,
                           'lines': [f.src_range[2], f.src_range[3]], 'sha256_of_source_text': f.sha256,
                           'loops': f.nloops} for f in self.prog.functions.values()],
            'rules_fired': dict(sorted(self.prog.rules.items())),
            'clang': self.prog.clang_cmds,
        }
        return missing

    def lock_owned(self):
        out = {}
        for line in self.spec.prelude.split('\n'):
            m = re.match(r'\s*//@\s*owned\s+(\w+)\s+mutex=([\w.]+)\s+fields=([\w.,]+)', line)
            if m:
                out[m.group(1)] = {'mutex': m.group(2), 'fields': set(m.group(3).split(','))}
        return out

    def enforced_functions(self):
        return {o.get('enforce') for _, o, _ in self.spec.harness if o.get('enforce')}

    def harness_jobs(self):
        jobs = []
        for name, opts, txt in self.spec.harness:
            tiers = opts.get('tier', 'quick,thorough').split(',')
            if self.tier not in tiers:
                continue
            jobs.append((name, opts))
        return jobs

    def run_harness(self, name, opts):
        """returns dict(name, obligations=[...], status, seconds, cmd, raw)"""
        wd = self.workdir
        uniq = hashlib.sha1(opts.get('define', '').encode()).hexdigest()[:8]
        gb1 = os.path.join(wd, '%s.%s.%s.1.gb' % (self.name, name, uniq))
        gb2 = os.path.join(wd, '%s.%s.%s.2.gb' % (self.name, name, uniq))
        res = {'harness': name, 'spec': self.name, 'obligations': [], 'status': 'ok', 'seconds': 0.0, 'cmds': []}
        timeout = int(opts.get('timeout', '900'))
        if self.tier == 'thorough':
            timeout = int(opts.get('timeout_thorough', str(timeout * 3)))
        defs = [d for d in opts.get('define', '').split(',') if d] + [d for d in self.spec.options.get('cdefs', '').split(',') if d]
        if opts.get('enforce'):
            defs.append('ENFORCE_' + opts['enforce'])
        cmd1 = ['goto-cc', '--function', name, self.cfile, '-o', gb1] + ['-D' + d for d in defs]
        rc, so, se, dt = sh(cmd1, 300)
        res['cmds'].append(' '.join(cmd1)); res['seconds'] += dt
        if rc != 0:
            res['status'] = 'tool-error'; res['detail'] = 'goto-cc: ' + (so + se)[-3000:]
            return res
        cmd2 = ['goto-instrument', '--dfcc', name]
        if opts.get('enforce'):
            cmd2 += ['--enforce-contract', opts['enforce']]
        for r in [x for x in opts.get('replace', '').split(',') if x]:
            cmd2 += ['--replace-call-with-contract', r]
        if opts.get('noloops') != '1':
            cmd2 += ['--apply-loop-contracts']
        cmd2 += [gb1, gb2]
        rc, so, se, dt = sh(cmd2, 600)
        res['cmds'].append(' '.join(cmd2)); res['seconds'] += dt
        if rc != 0:
            res['status'] = 'tool-error'; res['detail'] = 'goto-instrument: ' + (so + se)[-3000:]
            return res
        flags = ['--bounds-check', '--pointer-check', '--div-by-zero-check', '--signed-overflow-check', '--pointer-overflow-check',
                 '--no-malloc-may-fail', '--object-bits', '12', '--json-ui', '--trace']
        for f in [x for x in opts.get('flags', '').split(',') if x]:
            flags.append('--' + f)
        if opts.get('unwind'):
            flags += ['--unwind', opts['unwind'], '--unwinding-assertions']
        cmd3 = ['cbmc'] + flags + [gb2]
        solver = opts.get('solver') or self.spec.options.get('solver', 'cadical')   # measured: CaDiCaL 18 s where MiniSat needs 313 s (OnlineAverage::update)
        if solver in ('cadical', 'minisat2', 'glucose'):
            cmd3[1:1] = ['--sat-solver', solver]
        elif solver == 'kissat':
            cmd3[1:1] = ['--external-sat-solver', 'kissat']
        else:
            cmd3.insert(1, '--' + solver)
        rc, so, se, dt = sh(cmd3, timeout)
        res['cmds'].append(' '.join(cmd3)); res['seconds'] += dt
        for f in (gb1, gb2):
            try:
                os.remove(f)
            except OSError:
                pass
        if rc == -9:
            res['status'] = 'timeout'; res['detail'] = 'cbmc exceeded %ds' % timeout
            return res
        if rc == -99:
            res['status'] = 'tool-error'; res['detail'] = 'cbmc was killed by signal 9 after %.0fs (out of memory?)' % dt
            return res
        try:
            data = json.loads(so)
        except Exception as ex:
            res['status'] = 'tool-error'; res['detail'] = 'cbmc output not JSON (rc=%s): %s' % (rc, (so[-1500:] + se[-1500:]))
            return res
        results = None
        msgs = []
        for item in data:
            if 'result' in item:
                results = item['result']
            if 'messageText' in item:
                msgs.append(item['messageText'])
        if any('ignoring forall' in m or 'ignoring exists' in m for m in msgs):
            res['status'] = 'tool-error'; res['detail'] = 'quantifier ignored by SAT back end'
            return res
        if results is None:
            res['status'] = 'tool-error'; res['detail'] = 'no result list (rc=%s): %s' % (rc, ' | '.join(msgs[-8:]))
            return res
        for r in results:
            loc = r.get('sourceLocation', {})
            line = int(loc.get('line', 0) or 0)
            desc = r.get('description', '')
            prop = r.get('property', '')
            tag = self.tag_of(line, loc.get('file', ''))
            ob = {'property': prop, 'description': desc, 'status': r.get('status'), 'line': line, 'function': loc.get('function', ''),
                  'tag': tag, 'harness': name, 'spec': self.name}
            if r.get('status') == 'FAILURE' and 'trace' in r:
                ob['trace'] = compact_trace(r['trace'])
            res['obligations'].append(ob)
        res['nloops_expected'] = int(opts.get('loops', '0'))
        # a call the extracted code makes to a function that has no definition in this translation unit (a container-model operation the
        # model does not provide): CBMC's results for the harness say nothing about the real code -> no verdict, never a violation
        undefined = sorted({o['property'].split('.')[0] for o in res['obligations'] if o['status'] == 'FAILURE' and 'undefined function should be unreachable' in o['description']})
        if undefined:
            res['status'] = 'model-gap'
            res['detail'] = 'the extracted code reaches %s, which the container model does not define; the harness result is discarded' % ', '.join(undefined)
        return res

    def tag_of(self, line, file):
        if not line or not file.endswith(os.path.basename(self.cfile)):
            return None
        if 1 <= line <= len(self.lines):
            m = re.search(r'//@\s*([\w\.\[\]\-]+)', self.lines[line - 1])
            if m:
                return m.group(1)
        return None


def compact_trace(trace):
    out = []
    for st in trace:
        if st.get('stepType') == 'assignment' and not st.get('hidden'):
            lhs = st.get('lhs', '')
            v = st.get('value', {})
            val = v.get('data', v.get('name'))
            if 'binary' in v and val is None:
                val = v['binary']
            if lhs.startswith('__CPROVER') or lhs.startswith('dfcc') or '$' in lhs and 'tmp' in lhs:
                continue
            out.append([lhs, val, st.get('sourceLocation', {}).get('function', '')])
        elif st.get('stepType') == 'failure':
            out.append(['!failure', st.get('reason', ''), st.get('property', '')])
    return out[-4000:]


LOOP_CONTRACT_RE = re.compile(r'\.loop_(invariant_base|invariant_step|assigns|decreases|step_unwinding)\.')


def classify(ob):
    """kind of obligation: canary / model / contract / safety"""
    d = ob['description']
    if d.startswith('canary'):
        return 'canary'
    if d.startswith('model:'):
        return 'model'
    return 'check'


def obligation_name(ob):
    fn = ob.get('function') or ''
    if ob.get('tag'):
        return '%s:%s' % (fn, ob['tag'])
    d = re.sub(r'\s+', ' ', ob['description'])
    return '%s:%s[%s]' % (fn, ob['property'], d[:80])


# ----------------------------------------------------------------------------------------
# known findings
# ----------------------------------------------------------------------------------------
def load_known(pid):
    """known_findings.txt: 'finding: property=<id> obligation=<name> <text>' / 'fixed: property=<id> <commit> <text>'"""
    out = {}
    path = os.path.join(VERIF, 'known_findings.txt')
    if not os.path.exists(path):
        return out
    for line in open(path):
        line = line.strip()
        m = re.match(r'finding:\s+property=(\S+)\s+obligation=(\S+)\s+(.*)', line)
        if m and m.group(1) == pid:
            out[m.group(2)] = m.group(3)
    return out


# ----------------------------------------------------------------------------------------
# main check
# ----------------------------------------------------------------------------------------
def expand_cases(opts):
    """cases=<name> refers to a python generator in CASES; returns list of (label, [defines])"""
    c = opts.get('cases_%s' % TIER[0]) or opts.get('cases')
    if not c:
        return [('', [])]
    return CASES[c]()


def _grid_cases(dim, nmax):
    import itertools
    out = []
    for combo in itertools.product(range(1, nmax + 1), repeat=dim):
        out.append(('n=' + 'x'.join(map(str, combo)), ['CN%d=%d' % (i, v) for i, v in enumerate(combo)]))
    return out


CASES = {
    'grid2d_8': lambda: _grid_cases(2, 8),
    'grid2d_4': lambda: _grid_cases(2, 4),
    'grid3d_3': lambda: _grid_cases(3, 3),
    'grid3d_q': lambda: [c for c in _grid_cases(3, 3) if c[0] in ('n=1x3x2', 'n=2x3x1', 'n=2x1x3', 'n=1x1x1', 'n=2x2x2', 'n=3x1x1')],
    # thorough: every size triple up to 3 per axis plus a few larger ones (measured: 4x4x4 takes 37 min and 6 GB, 8x2x1 7 min)
    'grid3d_t': lambda: _grid_cases(3, 3) + [('n=' + 'x'.join(map(str, c)), ['CN%d=%d' % (i, v) for i, v in enumerate(c)]) for c in ((4, 4, 4), (8, 2, 1), (2, 8, 1), (1, 2, 8), (5, 3, 2))],
    'grid3d_4': lambda: _grid_cases(3, 4),
    'grid3d_8': lambda: _grid_cases(3, 8),
}
TIER = ['quick']


def run_check(pid, tier, seed):
    TIER[0] = tier
    t0 = time.time()
    work = os.path.join(VERIF, '.work', pid + os.environ.get('VERIF_WORK_SUFFIX', ''))      # development: a suffix keeps a second run of the same property apart
    shutil.rmtree(work, ignore_errors=True)
    os.makedirs(work, exist_ok=True)
    shutil.rmtree(os.path.join(VERIF, 'replays', pid), ignore_errors=True)   # replay files describe the current run only
    specs = sorted(glob.glob(os.path.join(VERIF, 'specs', pid, '*.spec')))
    runs, jobs = [], []
    no_verdict = []
    for sp in specs:
        sr = SpecRun(pid, sp, work, tier)
        try:
            missing = sr.extract()
        except ExtractError as ex:
            no_verdict.append('extraction failed for %s: %s' % (os.path.basename(sp), ex))
            continue
        if missing:
            no_verdict.append('loops without a loop contract in %s: %s' % (sr.name, missing))
        runs.append(sr)
        for name, opts in sr.harness_jobs():
            for label, defs in expand_cases(opts):
                o = dict(opts)
                if defs:
                    o['define'] = ','.join([d for d in opts.get('define', '').split(',') if d] + defs)
                jobs.append((sr, name, o, label))
    only = os.environ.get('VERIF_ONLY_HARNESS')      # development: run the matching back end A harnesses only (evidence goes to the scratch file)
    if only:
        jobs = [j for j in jobs if re.search(only, j[1])]
    results = []
    # admission by memory: a harness declares mem_gb (default 2); the sum of running harnesses stays below the budget
    budget = [MEM_BUDGET_GB]
    cond = threading.Condition()

    def admitted(sr, name, o):
        need = min(float(o.get('mem_gb', '2')), MEM_BUDGET_GB)
        with cond:
            while budget[0] < need:
                cond.wait()
            budget[0] -= need
        try:
            return sr.run_harness(name, o)
        finally:
            with cond:
                budget[0] += need
                cond.notify_all()
    jobs.sort(key=lambda j: -float(j[2].get('mem_gb', '2')))      # big ones first
    with cf.ThreadPoolExecutor(max_workers=NCPU) as ex:
        futs = {ex.submit(admitted, sr, name, o): (sr, name, o, label) for sr, name, o, label in jobs}
        for fu in cf.as_completed(futs):
            sr, name, o, label = futs[fu]
            try:
                r = fu.result()
            except Exception as e:
                r = {'harness': name, 'spec': sr.name, 'obligations': [], 'status': 'tool-error', 'detail': repr(e), 'seconds': 0, 'cmds': []}
            r['case'] = label
            r['opts'] = o
            results.append(r)
            log('[%s] %s/%s %s %s: %s %.1fs (%d obligations)' % (pid, sr.name, name, label, r['status'], r.get('detail', '')[:300].replace('\n', ' '), r['seconds'], len(r['obligations'])))
    # B back end
    bres = []
    try:
        import emit_smt
        if not only:
            bres, bnv = emit_smt.run_property(pid, tier, work, NCPU)
            no_verdict += bnv
    except ImportError:
        pass
    return finish(pid, tier, seed, t0, runs, results, bres, no_verdict)


def finish(pid, tier, seed, t0, runs, results, bres, no_verdict):
    known = load_known(pid)
    table = []          # per-obligation rows
    failing = {}        # obligation name -> first failing ob
    n_oblig = n_ok = 0
    misfit = set()      # (spec, harness, case) whose loop contracts failed
    for r in results:
        if r['status'] != 'ok':
            no_verdict.append('%s/%s %s: %s %s' % (r['spec'], r['harness'], r.get('case', ''), r['status'], r.get('detail', '')[:500]))
            continue
        canary = [o for o in r['obligations'] if classify(o) == 'canary']
        if not canary or any(o['status'] != 'FAILURE' for o in canary):
            no_verdict.append('%s/%s %s: vacuity canary did not fire (contradictory precondition?)' % (r['spec'], r['harness'], r.get('case', '')))
            continue
        steps = {o['property'] for o in r['obligations'] if 'loop_invariant_step' in o['property'] or 'loop invariant is preserved' in o['description'].lower() or 'invariant after step' in o['description'].lower()}
        if r.get('nloops_expected') and len(steps) < r['nloops_expected']:
            no_verdict.append('%s/%s: only %d loop-invariant step obligations for %d loops (loop contract dropped?)' % (r['spec'], r['harness'], len(steps), r['nloops_expected']))
        # a failed loop-contract obligation (invariant base / step, loop frame, variant) means the loop contract no longer fits the loop
        # of this tree; what CBMC reports for the rest of the harness is then relative to an invariant that is not one
        if any(o['status'] == 'FAILURE' and LOOP_CONTRACT_RE.search(o['property']) for o in r['obligations']):
            misfit.add((r['spec'], r['harness'], r.get('case', '')))
        undecided = 0
        for o in r['obligations']:
            kind = classify(o)
            if kind == 'canary':
                continue
            n_oblig += 1
            name = obligation_name(o)
            if o['status'] == 'SUCCESS':
                n_ok += 1
            elif o['status'] != 'FAILURE':
                # CBMC leaves properties UNKNOWN when its decision procedure stops before deciding them (solver error after the first
                # failures, resource limit): undecided, never counted as failed
                undecided += 1
            elif kind == 'model':
                no_verdict.append('%s/%s: model obligation failed: %s' % (r['spec'], r['harness'], o['description']))
            else:
                o['case'] = r.get('case', '')
                failing.setdefault(name, o)
        if undecided:
            misfit.add((r['spec'], r['harness'], r.get('case', '')))      # an incomplete run of the harness: its failures are arbitrated like those of a misfit
            no_verdict.append('%s/%s %s: cbmc left %d obligation(s) undecided (status UNKNOWN)' % (r['spec'], r['harness'], r.get('case', ''), undecided))
        table.append({'spec': r['spec'], 'harness': r['harness'], 'case': r.get('case', ''), 'backend': 'A:cbmc-dfcc',
                      'solver': r['opts'].get('solver') or 'cadical (or the spec-level @@option solver)', 'seconds': round(r['seconds'], 2),
                      'obligations': sum(1 for o in r['obligations'] if classify(o) != 'canary'),
                      'discharged': sum(1 for o in r['obligations'] if classify(o) != 'canary' and o['status'] == 'SUCCESS')})
    for sr in runs:
        st = getattr(sr, 'structural', [])
        for ob in st:
            n_oblig += 1
            if ob['ok']:
                n_ok += 1
            else:
                failing.setdefault('%s:%s' % (ob['function'], ob['tag']), {
                    'function': ob['function'], 'spec': sr.name, 'harness': '(extraction)', 'description': ob['tag'] + ': ' + ob['detail'],
                    'raw': '%s [%s]: %s' % (ob['qual'], ob['tag'], ob['detail'])})
        if st:
            table.append({'spec': sr.name, 'harness': '(structural lock obligations on the extracted functions)', 'case': '', 'backend': 'extraction (syntactic, no solver)',
                          'solver': '-', 'seconds': 0.0, 'obligations': len(st), 'discharged': sum(1 for ob in st if ob['ok'])})
    bounded = []
    for b in bres:
        if b.get('bounded'):
            bounded.append({'name': b['name'], 'bound': b['bounded'], 'result': b['status']})
            if b['status'] == 'sat':
                failing.setdefault(b['name'], b)
            elif b['status'] != 'unsat':
                no_verdict.append('bounded stand-in %s undecided (%s)' % (b['name'], b['status']))
            continue
        if b.get('refute_only') and b['status'] not in ('sat', 'unsat'):
            # falsification probe of a goal whose proof goes through separately checked proof steps: no counter-model found, nothing claimed
            table.append({'spec': b.get('spec'), 'harness': b['name'], 'case': '', 'backend': 'B:falsification probe (no counter-model within the time limit; not an obligation)', 'solver': '-',
                          'seconds': round(b.get('seconds', 0), 2), 'obligations': 0, 'discharged': 0})
            continue
        n_oblig += 1
        if b['status'] == 'unsat':
            n_ok += 1
        elif b['status'] == 'sat':
            failing.setdefault(b['name'], b)
        else:
            no_verdict.append('B obligation %s undecided (%s)' % (b['name'], b['status']))
        table.append({'spec': b.get('spec'), 'harness': b['name'], 'case': '', 'backend': 'B:smt-reals', 'solver': b.get('solver'),
                      'seconds': round(b.get('seconds', 0), 2), 'obligations': 1, 'discharged': 1 if b['status'] == 'unsat' else 0})
    # verdict
    known_hit, fresh = [], []
    for name, o in failing.items():
        if name in known:
            known_hit.append((name, known[name]))
        else:
            fresh.append((name, o))
    for name, txt in known_hit:
        print('KNOWN-FINDING: property=%s %s -- %s' % (pid, name, txt))
    violations = 0
    replay_paths = []
    # proof steps (lemmas, algebraic certificates) are not statements of the property: when only proof steps are refuted, the native
    # replay arbitrates - a failing input makes it a violation, otherwise the proof has to be adapted to the new code (no verdict)
    # The same holds for back end A when a loop contract of the harness fails (the inductive invariant written for the pinned loop does not
    # fit the loop of this tree): every failure of that harness is then relative to a non-invariant, and the native replay arbitrates.
    def is_proof_step(nm, o=None):
        if 'lemma.' in nm or nm.startswith('lemma') or '.certificate_' in nm:
            return True
        return bool(o) and (o.get('spec'), o.get('harness'), o.get('case', '')) in misfit
    if fresh and misfit:
        outside = [nm for nm, o in fresh if not is_proof_step(nm, o)]
        log('[%s] loop contract misfit or incomplete run in %s; %d failing obligation(s), %d of them outside those harnesses%s' % (pid, sorted(misfit), len(fresh), len(outside), (': ' + '; '.join(outside[:3])) if outside else ''))
    if fresh and all(is_proof_step(nm, o) for nm, o in fresh):
        import replay as rp
        os.makedirs(os.path.join(VERIF, 'replays', pid), exist_ok=True)
        path0, found0 = rp.make_replay(pid, fresh[0][0], fresh[0][1], seed, native=True)
        if not found0:
            no_verdict.append('%d proof step(s) (lemmas / certificates / obligations of a harness whose loop contract no longer fits the loop) fail on this tree, e.g. %s, but no obligation stating the property outside them does, and the native replay finds no failing input: the proof has to be adapted (replay file %s)' % (len(fresh), fresh[0][0], path0))
            fresh = []
    if fresh:
        import replay as rp
        os.makedirs(os.path.join(VERIF, 'replays', pid), exist_ok=True)
        for k, (name, o) in enumerate(fresh):
            # the native driver is run for the first few refuted obligations (it is the same driver and the same search for all of
            # them); the remaining replay files carry the verifier's output and point to the first native run
            path, found = rp.make_replay(pid, name, o, seed, native=(k < 4))
            violations += 1
            replay_paths.append(path)
            print('VIOLATION property=%s replay=%s%s' % (pid, path, '' if found else ' no-failing-input-found'))
    wall = time.time() - t0
    write_evidence(pid, tier, seed, wall, runs, table, n_oblig, n_ok, known_hit, fresh, no_verdict, bres, bounded)
    if fresh:
        return 1
    if no_verdict:
        for m in no_verdict:
            print('NO-VERDICT: property=%s %s' % (pid, m))
        return 2
    print('OK property=%s tier=%s obligations=%d discharged=%d%s known_findings=%d wall=%.1fs' % (pid, tier, n_oblig, n_ok, (' bounded_stand_ins=%d' % len(bounded)) if bounded else '', len(known_hit), wall))
    return 0


def write_evidence(pid, tier, seed, wall, runs, table, n_oblig, n_ok, known_hit, fresh, no_verdict, bres, bounded):
    meta = json.load(open(os.path.join(VERIF, 'specs', pid, 'meta.json'))) if os.path.exists(os.path.join(VERIF, 'specs', pid, 'meta.json')) else {}
    extraction = []
    rules = {}
    fns = []
    for sr in runs:
        extraction.append({'spec': sr.name, **sr.extraction})
        for k, v in sr.extraction.get('rules_fired', {}).items():
            rules[k] = rules.get(k, 0) + v
        enforced = sr.enforced_functions()
        for f in sr.extraction.get('functions', []):
            if f['c_name'] in enforced:
                fns.append(f['qualified_name'])
    for b in bres:
        for f in b.get('functions', []):
            fns.append(f)
    samples = []
    for sr in runs:
        for cname, txt in list(sr.spec.contracts.items())[:3]:
            samples.append({'function': cname, 'contract': [l.strip() for l in txt.split('\n') if l.strip()][:12]})
    for b in bres[:3]:
        samples.append({'obligation': b['name'], 'backend': 'B', 'goal': b.get('goal', '')[:600]})
    ev = {
        'property_id': pid, 'tier': tier, 'seed': seed, 'level': meta.get('level', 'proof'),
        'coverage': {
            # obligations claimed as proved; refuted obligations listed as known findings are reported separately below
            'obligations': n_oblig - len(known_hit), 'discharged': n_ok,
            'refuted_known_findings': len(known_hit),
            'checker_cmd': meta.get('checker_cmd', 'goto-cc --function h; goto-instrument --dfcc h --enforce-contract f [--replace-call-with-contract g] --apply-loop-contracts; cbmc --bounds-check --pointer-check --div-by-zero-check --signed-overflow-check  |  z3/z3-new/cvc5 on generated SMT-LIB2'),
            'trusted_base': meta.get('trusted_base', []),
            'functions_under_contract': sorted(set(fns)),
            'per_harness': table,
            'bounded': bounded,
            'extraction': extraction,
            'extraction_rules_fired': rules,
            'samples': samples or [{'note': 'no obligations generated'}],
            'known_findings_reported': [n for n, _ in known_hit],
            'violations_reported': [n for n, _ in fresh],
            'no_verdict': no_verdict,
            'explanation': meta.get('explanation', ''),
        },
        'assumptions': meta.get('assumptions', []),
        'wall_s': round(wall, 2),
        'violations': len(fresh),
    }
    if os.path.realpath(front.REPO) != '/repo' or os.environ.get('VERIF_WORK_SUFFIX') or os.environ.get('VERIF_ONLY_HARNESS'):
        # development runs against a scratch worktree (VERIF_REPO=...) never overwrite the evidence of /repo
        json.dump(ev, open(os.path.join(VERIF, '.work', pid + os.environ.get('VERIF_WORK_SUFFIX', ''), 'evidence.scratch.json'), 'w'), indent=1)
        return
    os.makedirs(os.path.join(VERIF, 'evidence'), exist_ok=True)
    json.dump(ev, open(os.path.join(VERIF, 'evidence', pid + '.json'), 'w'), indent=1)


def main():
    import argparse
    ap = argparse.ArgumentParser()
    ap.add_argument('pid')
    ap.add_argument('--tier', default=os.environ.get('VERIF_TIER', 'quick'))
    ap.add_argument('--replay')
    a = ap.parse_args()
    seed = int(os.environ.get('VERIF_SEED', '0') or 0)
    if a.replay:
        import replay as rp
        sys.exit(rp.run_replay(a.pid, a.replay, seed))
    try:
        rc = run_check(a.pid, a.tier, seed)
    except ExtractError as e:
        print('NO-VERDICT: property=%s extraction / specification generation failed: %s' % (a.pid, str(e)[:600]))
        rc = 2
    except Exception as e:      # an internal error of the machinery is never a verdict about the code
        import traceback
        traceback.print_exc()
        print('NO-VERDICT: property=%s internal error of the checker (%s: %s)' % (a.pid, type(e).__name__, str(e)[:300]))
        rc = 2
    sys.exit(rc)


if __name__ == '__main__':
    main()
