#!/bin/bash
# try_seed_wt.sh <seed-id> <property> [tier]: like try_seed.sh, but on a scratch worktree of /repo HEAD (VERIF_REPO=...), so that
# /repo itself stays untouched while other checks are running on it; the worktree is removed afterwards.
SEED=$1; PID=$2; TIER=${3:-quick}
WT=/tmp/wt_try_$SEED
git -C /repo worktree remove --force $WT >/dev/null 2>&1
git -C /repo worktree add -q $WT HEAD || exit 2
( cd $WT && git apply /verif/seeded/$SEED/patch.diff ) || { echo "patch does not apply"; git -C /repo worktree remove --force $WT; exit 2; }
cd /verif
VERIF_REPO=$WT VERIF_WORK_SUFFIX=_seed_$SEED ./check $PID --tier $TIER > /verif/.work/seed_$SEED.log 2>&1; RC=$?
git -C /repo worktree remove --force $WT; rm -rf /verif/.work/${PID}_seed_$SEED
echo "seed=$SEED property=$PID exit=$RC"
grep -E "^(VIOLATION|KNOWN-FINDING|NO-VERDICT|OK)" /verif/.work/seed_$SEED.log | grep -v KNOWN-FINDING | cut -c1-260 | head -6
