#!/bin/bash
# run_all.sh [quick|thorough] : every claimed check in turn on /repo's current tree; evidence/*.json are rewritten by each
cd "$(dirname "$0")/.."
TIER=${1:-quick}
mkdir -p .work
for id in $(python3 -c "import json; print(' '.join(c['property_id'] for c in json.load(open('MANIFEST.json'))['checks']))"); do
  s=$(date +%s)
  ./check $id --tier $TIER > .work/all_$id.log 2>&1; rc=$?
  echo "$id exit=$rc $(( $(date +%s) - s ))s $(tail -1 .work/all_$id.log | cut -c1-160)"
done
