#!/usr/bin/env python3
"""writes /verif/MANIFEST.json from the per-property table below (kept in one place so it stays consistent)"""
import json, os, subprocess
V = os.path.dirname(os.path.dirname(os.path.abspath(__file__)))
TB_A = "trusted: clang-14 AST + /verif/tools extractor, CBMC 6.11 dfcc + CaDiCaL, C models of std containers, dynamic type = static type; floating + - * / uninterpreted in back end A"
TB_B = "trusted: clang-14 AST + /verif/tools extractor and VC generator, z3 4.8.12 / z3 5.1 / cvc5 1.0, libm axioms (axioms/libm.smt2); machine arithmetic treated as mathematical (no rounding, no overflow)"
CLAIMED = {
 'C15': dict(cat='proof', technique='CBMC code contracts (goto-instrument --dfcc) with loop invariants on C extracted from the clang AST; ghost probe cell',
   text='WrappableGrid<int,2|3>::translate/operator()/index helpers are proved against the sliding-window abstract map for every prior state: every loop closed by an inductive invariant (unbounded iterations), sizes 1..8 per axis (quick: case split 1..4 / selected 3-D sizes; thorough: symbolic sizes), |offset| <= 2n. Histories follow by induction over the representation invariant.',
   note=TB_A + '; sizes bounded by 8 per axis (the property\'s maximum); T=int stands for any copy-assignable T', ref='DESIGN.md 4 (C15)'),
 'C16': dict(cat='proof', technique='CBMC code contracts (dfcc) on extracted C: representation invariant + abstract window view, ghost probes; bit-precise lemmas for integer products',
   text='OnlineAverage/OnlineVariance (ctor, setWindowSize, update, reset, isAvailable, getAverage/getVariance) and RingOfEigenVector (ctor, append, operator[], size, clear) are proved against the view "last min(n,W) items" for all W<=64 / capacities<=16 from any well-formed state; sums are exact integer deltas.',
   note=TB_A + '; sum = Sigma(window) by induction from the delta postcondition (sequence lemma on paper); real-number identity variance-expression = sample variance not machine-checked in A', ref='DESIGN.md 4 (C16)'),
}
NA = {}
def main():
    props = [json.loads(l) for l in open(os.path.join(V, 'properties.jsonl'))]
    try:
        from manifest_table import CLAIMED as C2, NA as N2
        CLAIMED.update(C2); NA.update(N2)
    except ImportError:
        pass
    checks = []
    for p in props:
        pid = p['id']
        if pid in CLAIMED:
            c = CLAIMED[pid]
            checks.append({
                'property_id': pid,
                'quick_cmd': './check %s --tier quick' % pid,
                'thorough_cmd': './check %s --tier thorough' % pid,
                'evidence_file': 'evidence/%s.json' % pid,
                'replay_cmd_template': './check %s --replay {path}' % pid,
                'engine': 'contracts',
                'level_claimed': {'category': c['cat'], 'text': c['text'], 'design_ref': c['ref']},
                'level_note': c['note'],
                'technique': c['technique'],
            })
    na = []
    for p in props:
        if p['id'] not in CLAIMED:
            na.append({'property_id': p['id'], 'reason': NA.get(p['id'], 'no contract-based check registered yet for this property (work in progress; see DESIGN.md)')})
    commits = subprocess.run(['git', '-C', '/repo', 'log', '--format=%h %s', '2218971..HEAD'], stdout=subprocess.PIPE, text=True).stdout.strip().split('\n')
    man = {
        'version': 1,
        'setup_cmd': 'python3 tools/setup_check.py',
        'hooks': {
            'guard': 'ROMEA_CORE_COMMON_VERIF',
            'enable': 'no hooks are needed: contracts live in /verif/specs and are spliced into C extracted from /repo on every run; the guard is reserved and unused',
            'baseline_off_cmd': 'cmake -G Ninja -S /repo -B /repo/_build -DCMAKE_BUILD_TYPE=RelWithDebInfo -DCMAKE_CXX_FLAGS=-Wno-error && cmake --build /repo/_build -j16 && ctest --test-dir /repo/_build -j8 --timeout 900',
            'source_commits': [],
            'add_only': True,
        },
        'engines': [{'name': 'contracts', 'path': 'tools/driver.py', 'serves_properties': sorted(CLAIMED),
                     'kind_free_text': 'contract-based deductive verification: clang AST -> extracted C + CBMC dfcc contracts (back end A), SMT VCs over reals (back end B)'}],
        'checks': checks,
        'not_applicable': na,
        'notes': 'fix: commits in /repo (genuine defects repaired, see known_findings.txt): ' + '; '.join(commits),
    }
    json.dump(man, open(os.path.join(V, 'MANIFEST.json'), 'w'), indent=1)
    print('wrote MANIFEST.json with %d checks, %d not_applicable' % (len(checks), len(na)))
if __name__ == '__main__':
    main()
