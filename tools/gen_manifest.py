#!/usr/bin/env python3
"""writes /verif/MANIFEST.json from the per-property table below (kept in one place so it stays consistent)"""
import json, os, subprocess
V = os.path.dirname(os.path.dirname(os.path.abspath(__file__)))
TB_A = "trusted: clang-14 AST + /verif/tools extractor, CBMC 6.11 dfcc + CaDiCaL, C models of std containers, dynamic type = static type; floating + - * / uninterpreted in back end A"
TB_B = "trusted: clang-14 AST + /verif/tools extractor and VC generator, z3 4.8.12 / z3 5.1 / cvc5 1.0, libm axiom schemas (axioms/axioms_libm.py, ground instances only); machine arithmetic treated as mathematical (no rounding, no overflow)"
CLAIMED = {
 'C15': dict(cat='proof', technique='CBMC code contracts (goto-instrument --dfcc) with loop invariants on C extracted from the clang AST; ghost probe cell',
   text='WrappableGrid<int,2|3>::translate/operator()/index helpers are proved against the sliding-window abstract map for every prior state: every loop closed by an inductive invariant (unbounded iterations), sizes 1..8 per axis (quick: case split 1..4 / selected 3-D sizes; thorough: symbolic sizes), |offset| <= 2n. Histories follow by induction over the representation invariant.',
   note=TB_A + '; sizes bounded by 8 per axis (the property\'s maximum); T=int stands for any copy-assignable T', ref='DESIGN.md 4 (C15)'),
 'C16': dict(cat='proof', technique='CBMC code contracts (dfcc) on extracted C: representation invariant + abstract window view, ghost probes; bit-precise lemmas for integer products',
   text='OnlineAverage/OnlineVariance (ctor, setWindowSize, update, reset, isAvailable, getAverage/getVariance) and RingOfEigenVector (ctor, append, operator[], size, clear) are proved against the view "last min(n,W) items" for all W<=64 / capacities<=16 from any well-formed state; sums are exact integer deltas.',
   note=TB_A + '; sum = Sigma(window) by induction from the delta postcondition (sequence lemma on paper); real-number identity variance-expression = sample variance not machine-checked in A', ref='DESIGN.md 4 (C16)'),
}
CLAIMED.update({
 'C18': dict(cat='proof', technique='CBMC code contracts (dfcc) on extracted C: bit-precise IEEE comparisons against uninterpreted rounded thresholds; exhaustive status algebra; unrolled bounded quantifiers',
   text='Equal-to/greater-than/lower-than/reliability check-ups are proved to classify by their thresholds for every binary64 value (values on a threshold and one ulp either side included), returned = stored status, message = name ++ verdict, info = printed value, exactly one diagnostic/info kept by every operation (so sequences follow by induction); worse() laws exhaustively; worseStatus/allOK with a loop invariant for lists <= 20; operator+= concatenation.',
   note=TB_A + '; strings are opaque handles (concatenation/printing uninterpreted); t-eps / t+eps are the rounded IEEE results (uninterpreted); std::map::insert(range) merge semantics assumed', ref='DESIGN.md 4 (C18)'),
 'C17': dict(cat='proof', technique='CBMC code contracts (dfcc) on extracted C: window abstract view with ghost probes; check-up contracts of C18 used by replacement',
   text='RateMonitoring (constructors, initialize, update, getRate, timeout) is proved against the abstract window of the last min(n,W) periods: W = clamp(trunc(2*rate),4,64), exact integer sum delta, rate unchanged until W+1 stamps and then fdiv(1e9, fdiv(sum, W)), timeout rule and frame; CheckupRate<EqualTo|GreaterThan>::evaluate/heartBeatCallback/getReport: status, message and value string agree with that rate; STALE/empty value after a timeout, earlier heartbeats change nothing.',
   note=TB_A + '; floating quotient kept symbolic (1e9/(S/W) = W/(S*1e-9) is a real-number fact); stamps in [0,4e18] ns, periods <= 10 s; queue model capacity 128', ref='DESIGN.md 4 (C17)'),
 'C13': dict(cat='proof', technique='SMT verification conditions over reals/integers generated from the extracted code (z3/cvc5 portfolio) + CBMC loop contracts for the centre table',
   text='For every extent, resolution > 0 and point inside the closed extent (no size bound): index < cell count, point within res/2 of its cell centre, centres map to their own index, spacing = res, first/last cells cover the bounds - each clause one discharged SMT query per axis, for the interval and the symmetric constructor, 2-D and 3-D; the table-filling loop and the look-up are proved by CBMC contracts.',
   note=TB_B + '; rounding of points exactly on a cell border is not decided (exact arithmetic); C model tables of <= 32 cells in back end A', ref='DESIGN.md 4 (C13)'),
})
CLAIMED.update({
 'C10': dict(cat='proof', technique='SMT / exact-polynomial verification conditions over the reals generated from the extracted code, libm as uninterpreted functions with ground axiom instances (z3/cvc5/polyid portfolio); Eigen/Geometry (AngleAxis, quaternion product, toRotationMatrix, normalized) by assumed contracts',
   text='Normalisers (range and congruence mod 2*pi for |val| < 4*pi), planar angle<->matrix pair (both directions), rotation3DToEulerAngles applied to Rz*Ry*Rx returns the angles mod 2*pi (|pitch| < pi/2), SmartRotation3D::R equals Rz*Ry*Rx entry by entry, is orthonormal with determinant 1; eulerAnglesToQuaternion gives a unit quaternion and eulerAnglesToRotation3D equals Rz*Ry*Rx (the builders agree), quaternionToEulerAngles is invariant under scaling of the quaternion (unit or non-unit); polar and spherical <-> Cartesian round trips: each an unbounded statement over all real inputs, one discharged query per clause.',
   note=TB_B + '; Eigen/Geometry operations enter by assumed contracts (specs/C10/meta.json); rotation -> angles -> rotation is proved for every proper rotation matrix with |R20| <= 1 - 1e-6; NOT covered: rigid_transformation3, float narrowing', ref='DESIGN.md 4 (C10), 9'),
 'C12': dict(cat='proof', technique='SMT / exact-polynomial verification conditions: extracted derivative matrices and the extracted 6x6 pose Jacobian against formal derivatives (symalg) of the code\'s own rotation and pose map',
   text='All 27 entries of dR/droll, dR/dpitch, dR/dyaw against the formal derivative of the reported R (= Rz*Ry*Rx, proved): 17 discharged, 10 refuted = known findings pinned by the existing tests; dRTdAngles(T) = (dR/da)*T. operator*(Affine3d, Pose3D): covariance\' = J cov J^T for the code\'s J (proved), and all 36 entries of J against the Jacobian of the library\'s own pose map: 19 discharged (zero blocks, d roll/d roll, one sign), 17 entries (19 obligations) refuted = known findings with native failing inputs.',
   note=TB_B + '; tools/polyid.py (sympy) as fourth portfolio member; the least-squares covariance clause is a BOUNDED stand-in (11 obligations labelled bounded, not counted as proved; see specs/C12/meta.json)', ref='DESIGN.md 4 (C12), 9'),
 'C01': dict(cat='proof', technique='SMT verification conditions over the reals generated from the extracted code; fixed-point loop summarised (partial correctness); lemma + generalisation steps',
   text='Forward map proved to be foot point + h * unit normal with the foot point on the ellipsoid and the ellipsoid normal parallel to (cos lat cos lon, cos lat sin lon, sin lat); inverse on the image of the forward map: longitude recovered exactly, the true latitude is a fixed point of the iteration map, height recovered at the fixed point, latitude in (-pi/2, pi/2), longitude in (-pi, pi], all divisions / square roots defined.',
   note=TB_B + '; tolerances (1e-9 rad, 1 mm), rounding, loop termination and uniqueness of the fixed point are not decided (exact arithmetic, partial correctness)', ref='DESIGN.md 4 (C01)'),
})
CLAIMED.update({
 'C02': dict(cat='proof', technique='SMT verification conditions over the reals for the frame algebra + CBMC code contracts (dfcc, SMT back end) for the anchored-flag state machine',
   text='After setAnchor from any prior state the frame columns are east/north/up at the anchor, the translation is the anchor ECEF position, the rotation is proper (orthonormal, det +1) and nothing of the old frame survives; to-local and to-ECEF are mutual inverses, the anchor maps to the origin, a point d above it to (0,0,d), distances are preserved; constructor/reset/un-anchored auto-anchoring/anchored conversions are contracts from arbitrary prior states, so every call sequence follows by induction.',
   note=TB_B + '; Eigen::Affine3d modelled as a 4x4 matrix, inverse() by an assumed contract with a discharged orthonormality side condition; 1 mm round-trip tolerance not decided (exact arithmetic)', ref='DESIGN.md 4 (C02)'),
})
CLAIMED.update({
 'C20': dict(cat='proof', technique='SMT verification conditions over the reals for boxes/intervals + CBMC code contracts with loop invariants (bit-precise comparisons) for point-set extents',
   text='AABB from an interval reproduces it; AABB and OBB containment are exactly the stated closed tests; the enclosing AABB of an OBB contains every point of it and is tight (a corner touches each face); interval union is the componentwise hull (2-D and 3-D, all real inputs). Container min/max and PointSetPreconditioner::compute: the reported extrema bound every point (probe, any set size up to the model capacity) and are attained by a point - never the seed - so all-negative sets are handled; scale/translation proved as expressions.',
   note=TB_B + '; ' + TB_A + '; point sets of 1..32 finite points in the C model (property: up to 1000); mean is a floating accumulation (expression only)', ref='DESIGN.md 4 (C20)'),
 'C11': dict(cat='proof', technique='CBMC code contracts (bit-precise copies) + SMT verification conditions (quadratic forms, SE(3) action on extracted operator*, uncertainty ellipse under an assumed JacobiSVD contract)',
   text='Reductions keep exactly x, y, yaw / vx, vy, yaw rate and rows/columns (0,1,5) of the covariance for every double (NaN included); embed-then-reduce is the identity and symmetry is kept; the quadratic forms of reduced/embedded covariances agree (so PSD is preserved); the rigid transform of a pose acts as R p + T on the position, the identity is neutral for position and attitude (as a rotation), successive transforms compose on the position; the uncertainty ellipse has major >= minor >= 0 and R diag(major^2, minor^2) R^T / sigma^2 reproduces the xy covariance (given the SVD contract).',
   note=TB_A + '; ' + TB_B + '; Eigen::JacobiSVD of the 2x2 covariance enters by an assumed contract (C = U diag(s) U^T, U orthonormal, s0 >= s1 >= 0 for symmetric PSD C); the attitude part of the group action Rz*Ry*Rx(result) = R * Rz*Ry*Rx(orientation) is proved away from gimbal lock; identity-neutrality and composition of the attitude then are associativity of the matrix product (stated)', ref='DESIGN.md 4 (C11), 9'),
})
CLAIMED.update({
 'C14': dict(cat='proof', technique='CBMC code contracts with a loop invariant for the chain + SMT verification conditions for the Amanatides-Woo one-step geometric invariant',
   text='Chain length = L1 distance + 1, first entry = origin cell, each step moves one face-adjacent cell along the axis of the smallest crossing parameter (ties: second axis), traversal state after cast(end) is a function of grid, origin and end only (history independence); geometric invariant established by setEndPoint and preserved by next(): the ray stays in the closed current cell until the crossing parameter and the crossing point lies in the next cell, so every listed cell is crossed by the segment; next() keeps the cell between origin and end cells and reduces the L1 distance to the end cell by exactly one per step (hence L1 steps end in the end cell, inside the grid).',
   note=TB_A + '; ' + TB_B + '; back end A: RayCasting<double,2>, back end B: all four instantiations; the clause "ends in the end cell after L1 steps without leaving the grid": base and step of the induction on the L1 distance machine-checked (end point off the cell border), the induction itself applied by hand', ref='DESIGN.md 4 (C14)'),
})
CLAIMED.update({
 'C19': dict(cat='proof', technique='lock-discipline contracts on the real methods (ghost held-flag for std::lock_guard, ownership map mutex -> fields) proved per method by CBMC dfcc; data-race freedom for all schedules then follows from the lockset theorem (stated, not machine-checked)',
   text='Every access to mutex-owned state in every public method of SharedVariable, SharedOptionalVariable, OnlineAverage, OnlineVariance, RateMonitoring, Checkup*, CheckupReliability, CheckupRate happens with the owning mutex held; helpers are only called with it held; one critical section per call; no reference to owned state escapes; consume() returns and empties the slot atomically.',
   note=TB_A + '; the step from per-method lock discipline to "no data race and sequentially consistent values in every schedule" is the standard lockset/atomicity theorem, stated as trusted; construction/configuration assumed single-threaded', ref='DESIGN.md 4 (C19)'),
})
CLAIMED.update({
 'C03': dict(cat='proof', technique='SMT verification conditions over the reals generated from the extracted C++ (formal derivative of the code\'s own forward map for conformality; libm as axiomatised uninterpreted functions)',
   text='Forward map conformal (equal scale along meridian and parallel, orthogonal images), scale 1 on both standard parallels / k0 on the tangent parallel, origin -> (x0, y0), central meridian -> x = x0; inverse on images of the forward map: log argument positive in both hemispheres, longitude and isometric latitude recovered exactly, original latitude is a fixed point of the latitude loop at which its exit test holds.',
   note=TB_B + '; rounding (the 1e-11 rad tolerance), convergence and termination of the fixed-point loop are NOT decided by the proof (native replay only)', ref='DESIGN.md 4 (C03)'),
})
CLAIMED.update({
 'C07': dict(cat='other', technique='BOUNDED stand-in: SMT verification conditions over the reals generated from the real LeastSquares<double> member functions with the dynamic-size Eigen members bound to fixed sizes (2 unknowns, 4 allocated rows, 3 data rows); ldlt().solve by assumed contract; never counted as proved',
   text='BOUNDED (estimate size 2, 4 allocated rows, data size 3, double): from any prior state of the solver object the normal matrix and right-hand side are those of the current rows only, the Cholesky estimate satisfies the normal equations of a full-rank problem and does not depend on the prior state, an affine preconditioner is applied as Ac x + Bc, setPreconditionner replaces the whole affine map (zero offset for the linear form), the weighted estimate satisfies the normal equations of the weighted rows. The SVD path, resizing, float and all other sizes are NOT decided.',
   note=TB_B + '; every obligation is labelled bounded in the evidence (coverage.bounded) and none is counted as discharged; JtJ.ldlt().solve(I) enters by the assumed contract adj/det', ref='DESIGN.md 9.8'),
})
CLAIMED.update({
 'C05': dict(cat='other', technique='BOUNDED stand-in: SMT verification conditions over the reals generated from the real FindRigidTransformationByLeastSquares<Vector3d>::estimate_ overloads (2 correspondences, solver members bound to fixed sizes), the least-squares solver used by contract; never counted as proved',
   text='BOUNDED (2 correspondences, 3-D double points): for every parameter vector the row written for a correspondence is its linearised point-to-plane residual n.(s + w x s + t - q), the solver is sized for the number of correspondences, and the returned matrix is identity + skew(w) with translation t for the solver estimate (aligned and index-based overloads, any prior object state); setPreconditioner resets the solver preconditioner to diag(1/scale x3, 1 x3) unconditionally. Optimality of the estimate is C07; exact/O(t^2) recovery, preconditioning invariance, 2-D, float and homogeneous points are NOT decided.',
   note=TB_B + '; LeastSquares::estimateUsingSVD / setDataSize used by contract (specs/C05/meta.json); every obligation is labelled bounded in the evidence and none is counted as discharged', ref='DESIGN.md 9.8'),
})
CLAIMED.update({
 'C09': dict(cat='other', technique='BOUNDED stand-in: SMT verification conditions over the reals generated from the real NormalAndCurvatureEstimation<Vector3d>::compute, planeEstimation_ and flipNormalTowardOriginCoordinate (clouds of 2 / 3 points), the kd-tree search and the eigen-decomposition behind an assumed contract; never counted as proved',
   text='BOUNDED (cloud of 2 points, 3-D double): the constructor stores the neighbourhood size asked for, the estimation step is run once per point for that point, the stored normal is +/- the eigenvector of the smallest eigenvalue, has unit length, faces the sensor origin (normal . point <= 0), the curvature is the smallest eigenvalue over the sum and lies in [0, 1/3]; from any prior state. planeEstimation_ (2 neighbours of 3 points) hands the covariance of the neighbours reported by the kd-tree to the eigen-solver and stores its results. What nanoflann and SelfAdjointEigenSolver return, planar exactness, rotation equivariance, 2-D, float and homogeneous points are NOT decided.',
   note=TB_B + '; planeEstimation_ enters by an assumed contract (ascending non-negative eigenvalues with positive sum, unit first eigenvector); std::copy over .data() read in column-major storage order; every obligation is labelled bounded and none is counted as discharged', ref='DESIGN.md 9.8'),
})
COMMON_NA = "the deciding computation is a third-party header-only kernel that contract-based verification cannot reach here: CBMC's C++ front end does not parse Eigen/nanoflann, the extractor covers fixed-size coefficient-wise Eigen only, and a contract on the kernel would have to be assumed in full, after which nothing of the property is left to prove; switching to testing or model checking would be a different technique family (DESIGN.md 5, 9.6)"
CLAIMED.update({
 'C04': dict(cat='proof', technique='SMT / exact-polynomial verification conditions on the extracted estimator with Eigen::JacobiSVD under an assumed contract (orthogonal U and V) and havocked accumulation loops; algebraic certificates; CBMC code contracts with a loop invariant for PreconditionedPointSet',
   text='For every correspondence set the linear part of the matrix returned by FindRigidTransformationBySVD::estimate_ is orthonormal with determinant +1 (also when v*u^T is a reflection: rank-deficient cross-covariance, e.g. coplanar 3-D points), the last row is (0,...,0,1) and the translation is targetMean - R*sourceMean; PreconditionedPointSet::allocate_/compute produce a copy of exactly the input size with every point scale*p + translation, from any prior state of the object. Exact recovery, optimality and the invariances are NOT decided.',
   note=TB_A + '; ' + TB_B + '; Eigen::JacobiSVD enters by the assumed contract that matrixU() and matrixV() are orthogonal; the clauses about what the decomposition returns for given data (exact recovery to 1e-9, least-squares optimality, invariance under preconditioning / order / representation) are not decided', ref='DESIGN.md 9.7'),
})
NA = {
 'C06': 'ICP + RANSAC convergence envelope on a data file: an empirical convergence statement about an iterative, randomised pipeline (nanoflann kd-tree, Eigen solvers, std::mt19937), not a per-call pre/postcondition; %s',
 'C08': 'kd-tree queries: the search is about 1400 lines of vendored nanoflann templates (recursive tree build, heap result sets); the repository part is a forwarding call; %s',
}
NA = {k: v % COMMON_NA for k, v in NA.items()}
def main():
    props = [json.loads(l) for l in open(os.path.join(V, 'properties.jsonl'))]
    try:
        from manifest_table import CLAIMED as C2, NA as N2
        CLAIMED.update(C2); NA.update(N2)
    except ImportError:
        pass
    checks = []
    for p in props:
        pid = p['id']
        if pid in CLAIMED:
            c = CLAIMED[pid]
            checks.append({
                'property_id': pid,
                'quick_cmd': './check %s --tier quick' % pid,
                'thorough_cmd': './check %s --tier thorough' % pid,
                'evidence_file': 'evidence/%s.json' % pid,
                'replay_cmd_template': './check %s --replay {path}' % pid,
                'engine': 'contracts',
                'level_claimed': {'category': c['cat'], 'text': c['text'], 'design_ref': c['ref']},
                'level_note': c['note'],
                'technique': c['technique'],
            })
    na = []
    for p in props:
        if p['id'] not in CLAIMED:
            na.append({'property_id': p['id'], 'reason': NA.get(p['id'], 'no contract-based check registered yet for this property (work in progress; see DESIGN.md)')})
    commits = subprocess.run(['git', '-C', '/repo', 'log', '--format=%h %s', '2218971..HEAD'], stdout=subprocess.PIPE, text=True).stdout.strip().split('\n')
    man = {
        'version': 1,
        'setup_cmd': 'python3 tools/setup_check.py',
        'hooks': {
            'guard': 'ROMEA_CORE_COMMON_VERIF',
            'enable': 'no hooks are needed: contracts live in /verif/specs and are spliced into C extracted from /repo on every run; the guard is reserved and unused',
            'baseline_off_cmd': 'cmake -G Ninja -S /repo -B /repo/_build -DCMAKE_BUILD_TYPE=RelWithDebInfo -DCMAKE_CXX_FLAGS=-Wno-error && cmake --build /repo/_build -j16 && ctest --test-dir /repo/_build -j8 --timeout 900',
            'source_commits': [],
            'add_only': True,
        },
        'engines': [{'name': 'contracts', 'path': 'tools/driver.py', 'serves_properties': sorted(CLAIMED),
                     'kind_free_text': 'contract-based deductive verification: clang AST -> extracted C + CBMC dfcc contracts (back end A), SMT VCs over reals (back end B)'}],
        'checks': checks,
        'not_applicable': na,
        'notes': 'fix: commits in /repo (genuine defects repaired, see known_findings.txt): ' + '; '.join(commits),
    }
    json.dump(man, open(os.path.join(V, 'MANIFEST.json'), 'w'), indent=1)
    print('wrote MANIFEST.json with %d checks, %d not_applicable' % (len(checks), len(na)))
if __name__ == '__main__':
    main()
