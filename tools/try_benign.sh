#!/bin/bash
# try_benign.sh <diff file> <property> [tier]: apply a behaviour-preserving edit on a scratch worktree of /repo HEAD and run the check
# there (VERIF_REPO); expected exit 0 (or 2 = no verdict), never 1. The worktree is removed afterwards.
DIFF=$1; [ -f "$DIFF" ] || DIFF=/verif/benign/$1.diff; PID=$2; TIER=${3:-quick}
TAG=$(basename $DIFF .diff)
WT=/tmp/wt_ben_$TAG
git -C /repo worktree remove --force $WT >/dev/null 2>&1
git -C /repo worktree add -q $WT HEAD || exit 2
( cd $WT && git apply $DIFF ) || { echo "benign=$TAG patch does not apply"; git -C /repo worktree remove --force $WT; exit 2; }
cd /verif
VERIF_REPO=$WT VERIF_WORK_SUFFIX=_$TAG ./check $PID --tier $TIER > /verif/.work/$TAG.log 2>&1; RC=$?
git -C /repo worktree remove --force $WT
rm -rf /verif/.work/${PID}_$TAG
echo "benign=$TAG property=$PID exit=$RC"
grep -E "^(VIOLATION|NO-VERDICT|OK)" /verif/.work/$TAG.log | cut -c1-400 | head -4
