#!/usr/bin/env python3
"""
front.py -- mechanical extraction of the functions under contract from /repo.

Input : clang-14's typed, template-instantiated JSON AST of a real translation unit
        (clang++ -std=c++17 -DNDEBUG -I/repo/include -fsyntax-only -Xclang -ast-dump=json
         -Xclang -ast-dump-filter=<name>).
Output: a small typed IR (python tuples) per function, consumed by emit_c.py (back end A,
        CBMC) and emit_smt.py (back end B, SMT over reals/integers).

Every AST node kind / callee / type this file has no rule for raises ExtractError; the
driver turns that into exit 2 (no verdict).  Every rule that fires is logged in
Program.rules so the evidence can state exactly what was kept, dropped or replaced.

IR
--
types : ('int',bits,signed) ('bool',) ('float',bits) ('void',) ('eig',S,R,C) ('struct',cname)
        ('enum',cname) ('vector',T) ('ptr',T) ('string',) ('mutex',) ('opaque',text)
        ('optional',T) ('queue',T) ('list',T) ('map',K,V) ('atomic',T) ('duration',)
exprs : ('const',type,value)            literal
        ('var',name,type)               local / parameter (value)
        ('field',base,name,type)        base.name          (base is an lvalue expr)
        ('arrow',ptr,name,type)         ptr->name
        ('elem',base,k,type)            base.d[k]           (Eigen coefficient, k python int)
        ('index',base,idx,type)         base[idx]           (C array / vector data, idx expr)
        ('deref',ptr,type)              *ptr
        ('addr',lv,type)                &lv
        ('bin',op,a,b,type) ('un',op,a,type) ('cast',a,fromtype,totype)
        ('call',cname,[args],type) ('cond',c,a,b,type)
stmts : ('decl',name,type,init|None) ('assign',lv,e) ('expr',e) ('if',c,then,else)
        ('for',init,cond,inc,body,ordinal) ('while',cond,body,ordinal) ('return',e|None)
        ('block',stmts) ('ghost',ctext) ('break',) ('continue',)
"""
import json, os, re, subprocess, hashlib, sys

REPO = os.environ.get('VERIF_REPO', '/repo')
CLANG = 'clang++-14'
CLANG_FLAGS = ['-std=c++17', '-DNDEBUG', '-I' + REPO + '/include', '-isystem', '/usr/include/eigen3',
               '-fsyntax-only', '-Wno-everything']


class ExtractError(Exception):
    pass


# ----------------------------------------------------------------------------------------
# AST loading
# ----------------------------------------------------------------------------------------
def run_clang(tu, flt, workdir):
    os.makedirs(workdir, exist_ok=True)
    key = hashlib.sha1((tu + '|' + flt).encode()).hexdigest()[:12]
    out = os.path.join(workdir, 'ast_%s.json' % key)
    cmd = [CLANG] + CLANG_FLAGS + ['-Xclang', '-ast-dump=json', '-Xclang', '-ast-dump-filter=' + flt, tu]
    with open(out, 'w') as f:
        r = subprocess.run(cmd, stdout=f, stderr=subprocess.PIPE, text=True)
    if r.returncode != 0:
        raise ExtractError('clang failed on %s: %s' % (tu, r.stderr[-2000:]))
    return out, ' '.join(cmd)


def load_json_stream(path):
    dec = json.JSONDecoder()
    s = open(path).read()
    i, out = 0, []
    n = len(s)
    while i < n:
        while i < n and s[i].isspace():
            i += 1
        if i >= n:
            break
        obj, i = dec.raw_decode(s, i)
        out.append(obj)
    return out


# ----------------------------------------------------------------------------------------
# type strings
# ----------------------------------------------------------------------------------------
BUILTIN = {
    'int': ('int', 32, True), 'unsigned int': ('int', 32, False), 'unsigned': ('int', 32, False),
    'long': ('int', 64, True), 'unsigned long': ('int', 64, False),
    'long long': ('int', 64, True), 'unsigned long long': ('int', 64, False),
    'short': ('int', 16, True), 'unsigned short': ('int', 16, False),
    'char': ('int', 8, True), 'signed char': ('int', 8, True), 'unsigned char': ('int', 8, False),
    'bool': ('bool',), 'float': ('float', 32), 'double': ('float', 64), 'void': ('void',),
    'size_t': ('int', 64, False), 'std::size_t': ('int', 64, False), 'Eigen::Index': ('int', 64, True),
    'long long int': ('int', 64, True), 'long int': ('int', 64, True),
    'std::ptrdiff_t': ('int', 64, True), 'ptrdiff_t': ('int', 64, True),
}


def split_targs(s):
    """split 'A<B, C>, D' at top-level commas"""
    out, depth, cur = [], 0, ''
    for ch in s:
        if ch in '<([':
            depth += 1
        elif ch in '>)]':
            depth -= 1
        if ch == ',' and depth == 0:
            out.append(cur.strip()); cur = ''
        else:
            cur += ch
    if cur.strip():
        out.append(cur.strip())
    return out


def template_parts(s):
    """'ns::Name<args>' -> ('ns::Name', [args]) ; no template -> (s, None). Only if s ends with '>'."""
    s = s.strip()
    if not s.endswith('>'):
        return s, None
    depth = 0
    for i in range(len(s) - 1, -1, -1):
        if s[i] == '>':
            depth += 1
        elif s[i] == '<':
            depth -= 1
            if depth == 0:
                return s[:i].strip(), split_targs(s[i + 1:-1])
    return s, None


def strip_cv(s):
    s = s.strip()
    changed = True
    while changed:
        changed = False
        for q in ('const ', 'volatile ', 'struct ', 'class ', 'typename ', 'mutable '):
            if s.startswith(q):
                s = s[len(q):].strip(); changed = True
        for q in (' const', ' volatile'):
            if s.endswith(q):
                s = s[:-len(q)].strip(); changed = True
    return s


def mangle(s):
    s = s.replace('romea::core::', '').replace('romea::', '')
    s = re.sub(r'[^A-Za-z0-9_]+', '_', s).strip('_')
    return s


def scalar_cname(t):
    if t[0] == 'int':
        return {(8, True): 'signed char', (8, False): 'unsigned char', (16, True): 'short', (16, False): 'unsigned short',
                (32, True): 'int', (32, False): 'unsigned int', (64, True): 'long long', (64, False): 'unsigned long'}[(t[1], t[2])]
    if t[0] == 'bool':
        return '_Bool'
    if t[0] == 'float':
        return 'float' if t[1] == 32 else 'double'
    raise ExtractError('no scalar C name for %r' % (t,))


def scalar_tag(t):
    if t[0] == 'int':
        return ('i' if t[2] else 'u') + str(t[1])
    if t[0] == 'float':
        return 'f' + str(t[1])
    if t[0] == 'bool':
        return 'b'
    raise ExtractError('no tag for %r' % (t,))


KNOWN_RECORDS = set()   # qualified names (without template arguments) of records/enums seen in any AST unit
TYPEDEFS = {}   # 'romea::core::X<...>::Alias' -> desugared type string (filled by AstUnit)


def parse_type(q):
    """qualType string (desugared where possible) -> (irtype, is_ref, is_const)"""
    q = re.sub(r'\b(\d+)(?:ULL|UL|LL|U|L)\b', r'\1', q.strip())
    is_ref = False
    if q.endswith('&&'):
        q = q[:-2].strip(); is_ref = True
    elif q.endswith('&'):
        q = q[:-1].strip(); is_ref = True
    is_const = q.startswith('const ') or q.endswith(' const')
    q0 = strip_cv(q)
    if q0.endswith('*'):
        inner, _, _ = parse_type(q0[:-1])
        return ('ptr', inner), is_ref, is_const
    if q0 in BUILTIN:
        return BUILTIN[q0], is_ref, is_const
    for bare, full in (('vector<', 'std::vector<'), ('Array<', 'Eigen::Array<'), ('Matrix<', 'Eigen::Matrix<'), ('list<', 'std::list<'), ('map<', 'std::map<')):
        if q0.startswith(bare):
            q0 = full + q0[len(bare):]
    if q0.endswith('::value_type'):
        inner, _, _ = parse_type(q0[:-len('::value_type')])
        if inner[0] in ('vector', 'list'):
            return inner[1], is_ref, is_const
    m = re.match(r'^Eigen::(Vector|RowVector|Matrix)([234])([dfi])$', q0)
    if m:
        st = {'d': ('float', 64), 'f': ('float', 32), 'i': ('int', 32, True)}[m.group(3)]
        k = int(m.group(2))
        shape = {'Vector': (k, 1), 'RowVector': (1, k), 'Matrix': (k, k)}[m.group(1)]
        return ('eig', st, shape[0], shape[1]), is_ref, is_const
    if q0 in TYPEDEFS:
        t, r2, c2 = parse_type(TYPEDEFS[q0])
        return t, is_ref or r2, is_const or c2
    mps = re.match(r'^(?:romea::core::)?(?:PointSet|VectorOfEigenVector)<(.*)>$', q0)
    if mps:
        et, _, _ = parse_type(mps.group(1))
        if et[0] == 'eig':
            return ('vector', et), is_ref, is_const       # using PointSet = VectorOfEigenVector<P> = std::vector<P, aligned_allocator<P>>
    mq = re.match(r'^Eigen::(?:Quaternion|AngleAxis)<\s*(double|float)\b', q0)
    if mq or q0 in ('Eigen::Quaterniond', 'Eigen::Quaternionf', 'Eigen::AngleAxisd', 'Eigen::AngleAxisf'):
        st = ('float', 64 if (mq.group(1) if mq else ('double' if q0.endswith('d') else 'float')) == 'double' else 32)
        return ('eig', st, 4, 1), is_ref, is_const     # quaternion coefficients (x, y, z, w) as Eigen stores them; AngleAxis only as the quaternion it converts to
    if q0 in ('Eigen::Affine3d', 'Eigen::Isometry3d') or q0.startswith('Eigen::Transform<double, 3,'):
        return ('eig', ('float', 64), 4, 4), is_ref, is_const     # Affine3d modelled as its 4x4 homogeneous matrix
    name, targs = template_parts(q0)
    if targs and len(targs) == 1 and (name in TYPEDEFS or ('romea::core::' + name) in TYPEDEFS) and not name.startswith('std::'):
        # alias template of the repository (using X = Eigen::Matrix<Scalar, N, 1>): substitute its single parameter
        body = TYPEDEFS.get(name) or TYPEDEFS['romea::core::' + name]
        body = re.sub(r'\b(Scalar|T|EigenVectorType|PointType)\b', targs[0], body).replace('type-parameter-0-0', targs[0])
        if body.startswith('Matrix<'):
            body = 'Eigen::' + body
        if body.startswith('vector<'):
            body = 'std::' + body
        t, r2, c2 = parse_type(body)
        return t, is_ref or r2, is_const or c2
    if name in ('Eigen::Matrix', 'Eigen::Array') and targs:
        st, _, _ = parse_type(targs[0])
        try:
            r, c = int(targs[1]), int(targs[2])
        except ValueError:
            raise ExtractError('dynamic/unknown Eigen size: ' + q0)
        if r < 0 or c < 0:
            return ('eigdyn', st, r, c), is_ref, is_const
        return ('eig', st, r, c), is_ref, is_const
    if name == 'std::vector' and targs:
        et, _, _ = parse_type(targs[0])
        return ('vector', et), is_ref, is_const
    if name in ('std::basic_string', 'std::__cxx11::basic_string', 'basic_string') or q0 in ('std::string', 'std::__cxx11::string'):
        return ('string',), is_ref, is_const
    if name == 'std::mutex' or q0 == 'std::mutex':
        return ('mutex',), is_ref, is_const
    if name == 'std::lock_guard':
        return ('lockguard',), is_ref, is_const
    if name == 'std::atomic' and targs:
        et, _, _ = parse_type(targs[0])
        return ('atomic', et), is_ref, is_const
    if name == 'std::optional' and targs:
        et, _, _ = parse_type(targs[0])
        return ('optional', et), is_ref, is_const
    if name == 'std::queue' and targs:
        et, _, _ = parse_type(targs[0])
        return ('queue', et), is_ref, is_const
    if name == 'std::list' and targs:
        et, _, _ = parse_type(targs[0])
        return ('list', et), is_ref, is_const
    if name == 'std::map' and targs:
        kt, _, _ = parse_type(targs[0]); vt, _, _ = parse_type(targs[1])
        return ('map', kt, vt), is_ref, is_const
    if name in ('std::_List_iterator', 'std::_List_const_iterator', 'std::_Rb_tree_iterator', 'std::_Rb_tree_const_iterator', '__gnu_cxx::__normal_iterator') and targs:
        et, _, _ = parse_type(targs[0].rstrip('*').strip())
        return ('iter', et), is_ref, is_const
    if q0.endswith('::iterator') or q0.endswith('::const_iterator'):
        inner, _, _ = parse_type(q0.rsplit('::', 1)[0])
        if inner[0] in ('list', 'vector'):
            return ('iter', inner[1]), is_ref, is_const
        if inner[0] == 'map':
            return ('iter', ('pair', inner[1], inner[2])), is_ref, is_const
    if name == 'std::pair' and targs:
        kt, _, _ = parse_type(targs[0]); vt, _, _ = parse_type(targs[1])
        return ('pair', kt, vt), is_ref, is_const
    if name == 'std::chrono::duration':
        return ('duration',), is_ref, is_const
    if name == 'std::chrono::time_point':
        return ('duration',), is_ref, is_const
    if name.startswith('romea::core::') or name.startswith('romea::'):
        return ('struct', mangle(q0)), is_ref, is_const
    if re.match(r'^[A-Za-z_]\w*$', name) and ('romea::core::' + name) in KNOWN_RECORDS:
        return ('struct', mangle('romea::core::' + q0)), is_ref, is_const
    return ('opaque', q0), is_ref, is_const


def node_type(n):
    t = n.get('type', {})
    return t.get('desugaredQualType') or t.get('qualType') or ''


def ctype(t):
    k = t[0]
    if k in ('int', 'bool', 'float'):
        return scalar_cname(t)
    if k == 'void':
        return 'void'
    if k == 'eig':
        return 'struct eig_%s_%d_%d' % (scalar_tag(t[1]), t[2], t[3])
    if k == 'struct':
        return 'struct ' + t[1]
    if k == 'enum':
        return 'int'
    if k == 'vector':
        return 'struct stdvec_' + type_tag(t[1])
    if k == 'ptr':
        return ctype(t[1]) + ' *'
    if k == 'string':
        return 'str_t'
    if k == 'mutex':
        return 'struct ghost_mutex'
    if k == 'atomic':
        return ctype(t[1])
    if k == 'duration':
        return 'long long'
    if k == 'optional':
        return 'struct stdopt_' + type_tag(t[1])
    if k == 'queue':
        return 'struct stdqueue_' + type_tag(t[1])
    if k == 'list':
        return 'struct stdlist_' + type_tag(t[1])
    if k == 'map':
        return 'struct stdmap_' + type_tag(t[1]) + '_' + type_tag(t[2])
    if k == 'pair':
        return 'struct stdpair_' + type_tag(t[1]) + '_' + type_tag(t[2])
    if k == 'iter':
        return 'size_t'
    raise ExtractError('no C type for %r' % (t,))


def type_tag(t):
    if t[0] in ('int', 'float', 'bool'):
        return scalar_tag(t)
    if t[0] == 'struct':
        return t[1]
    if t[0] == 'eig':
        return 'eig_%s_%d_%d' % (scalar_tag(t[1]), t[2], t[3])
    if t[0] == 'string':
        return 'str'
    if t[0] == 'enum':
        return 'i32'
    if t[0] == 'duration':
        return 'i64'
    if t[0] == 'pair':
        return 'pair_%s_%s' % (type_tag(t[1]), type_tag(t[2]))
    if t[0] == 'vector':
        return 'vec_' + type_tag(t[1])
    raise ExtractError('no tag for %r' % (t,))


def is_scalar(t):
    return t[0] in ('int', 'bool', 'float', 'enum', 'duration', 'iter')


# ----------------------------------------------------------------------------------------
# Program: records + functions collected from one or more ASTs
# ----------------------------------------------------------------------------------------
class Program:
    def __init__(self):
        self.records = {}      # cname -> {'fields': [(name, irtype)], 'bases': [cname], 'qual': str}
        self.static_ids = set()
        self.extra_dumps = set()
        self.functions = {}    # cname -> Function
        self.rules = {}        # rule name -> count
        self.used_types = []   # types needing C declarations, in dependency order
        self.enums = {}        # cname -> {const: value}
        self.clang_cmds = []
        self.decl_index = {}   # clang id -> node (records, methods)
        self.string_literals = {}
        self.typedefs = {}
        self.options = {}      # extraction options of the spec (e.g. unroll_const_loops)
        self.units = []
        self.by_def_id = {}    # clang decl id (any redeclaration) -> (unit, parent_qual, def node)
        self.cname_of_id = {}  # definition id -> cname
        self.cname_of_src = {} # (file, offset, type, parent) -> cname
        self.pending = []

    def rule(self, name):
        self.rules[name] = self.rules.get(name, 0) + 1

    def intern_string(self, s):
        if s.startswith('"') and s.endswith('"'):
            s = s[1:-1]
        if s == '':
            return 0          # the empty string and a default-constructed std::string are the same handle
        if s not in self.string_literals:
            self.string_literals[s] = len(self.string_literals) + 1
        return self.string_literals[s]

    def fix_type(self, t):
        if t[0] in ('struct', 'opaque'):
            m = mangle(t[1])
            if m in self.enums:
                return ('enum', m)
        if t[0] in ('vector', 'list', 'optional', 'queue', 'iter'):
            return (t[0], self.fix_type(t[1]))
        if t[0] == 'ptr':
            return ('ptr', self.fix_type(t[1]))
        return t

    def subst_typedefs(self, txt):
        q = strip_cv(txt.rstrip('&').strip())
        if q in self.typedefs:
            return txt.replace(q, self.typedefs[q])
        return txt

    # -- units / lookup -----------------------------------------------------------------
    def add_unit(self, tu, workdir, flt='romea'):
        u = AstUnit(self, tu, flt, workdir)
        self.units.append(u)
        for parent, n in u.funcs:
            if n.get('storageClass') == 'static':
                self.static_ids.add(n['id'])         # in-class declaration of a static member function
            has_body = any(isinstance(c, dict) and c.get('kind') == 'CompoundStmt' for c in n.get('inner', []))
            if not has_body or n.get('_pattern'):
                continue
            ids = [n['id']]
            if 'previousDecl' in n:
                ids.append(n['previousDecl'])
            for i in ids:
                self.by_def_id.setdefault(i, (u, parent, n))
        # in-class declarations of out-of-line definitions: chain previousDecl
        return u

    def find(self, parent, name, sig=None, const=None, nparams=None):
        cands = {}
        for u in self.units:
            for p, n in u.funcs:
                if n.get('name') != name or p != parent or n.get('_pattern'):
                    continue
                if not any(isinstance(c, dict) and c.get('kind') == 'CompoundStmt' for c in n.get('inner', [])):
                    continue
                q = n.get('type', {}).get('qualType', '')
                if sig is not None and sig not in q:
                    continue
                if const is not None and q.rstrip().endswith('const') != const:
                    continue
                if nparams is not None and sum(1 for c in n.get('inner', []) if isinstance(c, dict) and c.get('kind') == 'ParmVarDecl') != nparams:
                    continue
                rb = n.get('range', {}).get('begin', {})
                rb = rb.get('expansionLoc', rb)
                key = (n.get('_file'), rb.get('offset'), q)
                cands.setdefault(key, (u, p, n))    # the same definition seen from several translation units
        if len(cands) != 1:
            raise ExtractError('function %s::%s sig=%r const=%r: %d candidates %s' % (
                parent, name, sig, const, len(cands), [c[2].get('type', {}).get('qualType') for c in cands.values()]))
        return list(cands.values())[0]

    def register(self, cname, parent, name, sig=None, const=None, nparams=None):
        u, p, n = self.find(parent, name, sig, const, nparams)
        rb = n.get('range', {}).get('begin', {})
        rb = rb.get('expansionLoc', rb)
        self.cname_of_src[(n.get('_file'), rb.get('offset'), n.get('type', {}).get('qualType'), p)] = cname
        self.cname_of_id[n['id']] = cname
        self.pending.append((cname, u, p, n))
        return cname

    def resolve_call(self, tr, decl_id, name, obj, node):
        ent = self.by_def_id.get(decl_id)
        if ent is None:
            # definition lives in another translation unit: resolve by (class, name, arity)
            parent = ''
            if obj is not None:
                ot, _, _ = parse_type(node_type(tr.strip(obj)).rstrip('*').strip())
                for u in self.units:
                    for rq in u.records:
                        if ot[0] == 'struct' and mangle(rq) == ot[1]:
                            parent = rq
            nargs = len([c for c in node.get('inner', [])[1:] if isinstance(c, dict)])
            if node.get('kind') == 'CXXOperatorCallExpr' and obj is not None:
                nargs -= 1
            try:
                ent = self.find(parent, name, nparams=nargs)
                self.rule('callee defined in another translation unit: resolved by qualified name and arity')
            except ExtractError:
                ent = None
                # several overloads with that arity: use the declared type of the callee (as written at the call site) to pick one
                try:
                    cd = tr.callee_decl(node)
                    q = (cd.get('referencedDecl', {}) or {}).get('type', {}).get('qualType') or cd.get('type', {}).get('qualType')
                    if q and '(' in q:
                        ent = self.find(parent, name, sig=q[q.index('('):], nparams=nargs, const=q.rstrip().endswith('const'))
                        self.rule('callee defined in another translation unit: overload picked by its declared parameter types')
                except (ExtractError, AttributeError, KeyError):
                    ent = None
                if ent is None and obj is not None:
                    # const / non-const overload pair of a member function: picked by the constness of the object expression
                    try:
                        ent = self.find(parent, name, nparams=nargs, const=strip_cv(node_type(tr.strip(obj))) != node_type(tr.strip(obj)).strip() and node_type(tr.strip(obj)).strip().startswith('const'))
                        self.rule('callee defined in another translation unit: const / non-const overload picked by the constness of the object')
                    except ExtractError:
                        ent = None
                # a file-local helper outside namespace romea (anonymous namespace at file scope) is not in the filtered dump: dump it by name
                key = (tr.unit.tu, name)
                if ent is None and not parent and name and re.match(r'^[A-Za-z_]\w*$', name) and key not in self.extra_dumps:
                    self.extra_dumps.add(key)
                    try:
                        self.add_unit(tr.unit.tu, tr.unit.workdir, flt=name)
                        try:
                            ent = self.find(parent, name, nparams=nargs)
                        except ExtractError:
                            # a file-local function template: one instantiation per point type, picked by the declared parameter types
                            cd = tr.callee_decl(node)
                            q = (cd.get('referencedDecl', {}) or {}).get('type', {}).get('qualType') or cd.get('type', {}).get('qualType')
                            ent = self.find(parent, name, sig=q[q.index('('):], nparams=nargs)
                        self.rule('file-local helper function outside namespace romea: dumped on demand by name')
                    except (ExtractError, AttributeError, KeyError, ValueError, TypeError):
                        ent = None
                if ent is None:
                    return None
        u, parent, n = ent
        rb = n.get('range', {}).get('begin', {})
        rb = rb.get('expansionLoc', rb)
        skey = (n.get('_file'), rb.get('offset'), n.get('type', {}).get('qualType'), parent)
        if n['id'] not in self.cname_of_id and skey in self.cname_of_src:
            self.cname_of_id[n['id']] = self.cname_of_src[skey]      # the same definition seen from another translation unit
        if n['id'] not in self.cname_of_id:
            base = fn_basename(parent, n)
            cname = base
            k = 1
            while cname in self.cname_of_id.values():
                k += 1
                cname = '%s_%d' % (base, k)
            self.cname_of_id[n['id']] = cname
            self.cname_of_src[skey] = cname
            if n.get('name') in (self.options.get('opaque_calls') or ()):
                # the spec supplies a contract for this callee (back end B: Builder.overrides): its body is not extracted here
                self.rule('callee %s kept as a call: the spec supplies its contract' % n.get('name'))
            else:
                self.pending.append((cname, u, parent, n))
                self.rule('callee extracted on demand (body verified inline, no contract)')
        cname = self.cname_of_id[n['id']]
        ret, kinds, rref, _ = fn_signature(self, n)
        return cname, ret, kinds, rref

    def extract_all(self):
        while self.pending:
            cname, u, parent, n = self.pending.pop(0)
            if cname in self.functions:
                continue
            tr = FnTranslator(self, u, n, parent, cname)
            f = tr.translate()
            loc = n.get('loc', {})
            f.src_file = n.get('_file')
            rng = n.get('range', {})
            b, e = rng.get('begin', {}), rng.get('end', {})
            b = b.get('expansionLoc', b); e = e.get('expansionLoc', e)
            try:
                txt = open(f.src_file, 'rb').read()
                bo, eo = b['offset'], e['offset'] + e.get('tokLen', 1)
                f.sha256 = hashlib.sha256(txt[bo:eo]).hexdigest()
                f.src_range = (bo, eo, txt.count(b'\n', 0, bo) + 1, txt.count(b'\n', 0, eo) + 1)
            except Exception as ex:
                raise ExtractError('cannot locate source text of %s: %s' % (cname, ex))
            self.functions[cname] = f
            if f.rec:
                self.need_record(parent)
            # every record type mentioned by the function (parameters, locals, temporaries)
            seen = set()

            def scan(x):
                if isinstance(x, tuple):
                    if len(x) == 2 and x[0] == 'struct' and isinstance(x[1], str):
                        if x[1] not in seen:
                            seen.add(x[1])
                            try:
                                self.need_type(x)
                            except ExtractError:
                                pass
                        return
                    for y in x:
                        scan(y)
                elif isinstance(x, list):
                    for y in x:
                        scan(y)
            scan(f.body); scan([p[1] for p in f.params]); scan(f.ret)
        # records of all struct types mentioned
        return self.functions

    def need_record(self, qual):
        cn = mangle(qual)
        if cn in self.records:
            return cn
        node = None
        for u in self.units:
            if qual in u.records:
                node = u.records[qual]
                break
        if node is None:
            raise ExtractError('no definition of record ' + qual)
        fields, bases = [], []
        for b in node.get('bases', []):
            bq = b['type'].get('desugaredQualType') or b['type']['qualType']
            bases.append(strip_cv(bq))
        self.records[cn] = {'fields': fields, 'bases': [mangle(b) for b in bases], 'qual': qual}
        for b in bases:
            self.need_record(b)
        for c in node.get('inner', []):
            if isinstance(c, dict) and c.get('kind') == 'FieldDecl':
                t, is_ref, _ = parse_type(node_type(c))
                t = self.fix_type(t)
                if t[0] == 'eigdyn':
                    shp = (self.options.get('dyn_shapes') or {}).get(cn, {}).get(c['name'])
                    if shp:
                        # bounded stand-in: a dynamic-size Eigen member is given the fixed size the spec states for this run
                        t = ('eig', t[1], shp[0], shp[1])
                if is_ref:
                    t = ('ptr', t)
                fields.append((c['name'], t))
                self.need_type(t)
        return cn

    def need_type(self, t):
        if t[0] == 'struct':
            q = None
            for u in self.units:
                for rq in u.records:
                    if mangle(rq) == t[1]:
                        q = rq
            if q is None:
                raise ExtractError('no record for struct ' + t[1])
            self.need_record(q)
        elif t[0] in ('vector', 'ptr', 'optional', 'queue', 'list', 'atomic', 'iter'):
            self.need_type(t[1])
        elif t[0] in ('map', 'pair'):
            self.need_type(t[1]); self.need_type(t[2])


OPNAMES = {'()': 'op_call', '[]': 'op_index', '*': 'op_mul', '+': 'op_add', '-': 'op_sub', '/': 'op_div',
           '+=': 'op_addassign', '-=': 'op_subassign', '*=': 'op_mulassign', '==': 'op_eq', '!=': 'op_ne',
           '<': 'op_lt', '>': 'op_gt', '<=': 'op_le', '>=': 'op_ge', '<<': 'op_shl', '=': 'op_assign'}


def fn_basename(parent, n):
    nm = n.get('name', '')
    if n['kind'] == 'CXXConstructorDecl':
        nm = 'ctor'
    elif nm.startswith('operator'):
        nm = OPNAMES.get(nm[len('operator'):].strip(), 'op_' + mangle(nm[len('operator'):]))
    return (mangle(parent) + '__' if parent else '') + nm


def fn_signature(prog, n):
    """(ret irtype, [param kinds], ret_is_ref, [param irtypes]) of a function decl node"""
    kinds, ptypes = [], []
    for c in n.get('inner', []):
        if isinstance(c, dict) and c.get('kind') == 'ParmVarDecl':
            t, is_ref, is_const = parse_type(node_type(c))
            t = prog.fix_type(t)
            if t[0] == 'eigdyn' and c.get('name') in (prog.options.get('dyn_locals') or {}):
                shp = prog.options['dyn_locals'][c.get('name')]
                t = ('eig', t[1], shp[0], shp[1])
            if is_ref and (is_scalar(t) or t[0] == 'string') and is_const:
                kinds.append('value')
            elif is_ref:
                kinds.append('constref' if is_const else 'ref')
            else:
                kinds.append('value')
            ptypes.append(t)
    rt_s = n['type'].get('desugaredQualType') or n['type']['qualType']
    depth, cut = 0, len(rt_s)
    for i, ch in enumerate(rt_s):
        if ch == '<':
            depth += 1
        elif ch == '>':
            depth -= 1
        elif ch == '(' and depth == 0:
            cut = i
            break
    rtxt = rt_s[:cut].strip()
    if n['kind'] == 'CXXConstructorDecl':
        return ('void',), kinds, False, ptypes
    rtxt = prog.subst_typedefs(rtxt)
    ret, rref, _ = parse_type(rtxt)
    ret = prog.fix_type(ret)
    if rref:
        ret = ('ptr', ret)
    return ret, kinds, rref, ptypes


class Function:
    def __init__(self, cname, qual, ret, params, body, node, is_method, rec):
        self.cname, self.qual, self.ret, self.params, self.body = cname, qual, ret, params, body
        self.node, self.is_method, self.rec = node, is_method, rec
        self.nloops = 0
        self.src_file = None
        self.src_range = None
        self.sha256 = None
        self.ret_is_ref = False
        self.locals = {}


def find_file(n):
    for key in ('loc', 'range'):
        x = n.get(key, {})
        for sub in (x, x.get('begin', {}), x.get('expansionLoc', {}), x.get('spellingLoc', {})):
            if isinstance(sub, dict) and 'file' in sub:
                return sub['file']
    return None


def annotate_files(objs):
    """clang's JSON omits 'file' when unchanged from the previously printed location: replay in print order"""
    cur = [None]

    def walk(x):
        if isinstance(x, dict):
            if 'kind' in x:
                for key in ('loc', 'range'):
                    if key in x:
                        walk(x[key])
                x['_file'] = cur[0]
                for key, v in x.items():
                    if key not in ('loc', 'range', '_file'):
                        walk(v)
            else:
                for key, v in x.items():
                    if key == 'includedFrom':
                        continue
                    if key == 'file' and isinstance(v, str):
                        cur[0] = v
                    else:
                        walk(v)
        elif isinstance(x, list):
            for y in x:
                walk(y)
    for o in objs:
        walk(o)


def collect_decls(objs):
    """index every decl by id, remember parent class for methods; return list of (context_path, node)"""
    found = []

    def walk(n, ctx):
        k = n.get('kind')
        if k in ('CXXRecordDecl', 'ClassTemplateSpecializationDecl', 'EnumDecl'):
            found.append((ctx, n))
        if k in ('TypeAliasDecl', 'TypedefDecl') and ctx and all(kk == 'NamespaceDecl' for kk, _ in ctx):
            q = '::'.join(c.get('name', '') for _, c in ctx) + '::' + n.get('name', '')
            tt = n.get('type', {})
            TYPEDEFS[q] = tt.get('desugaredQualType') or tt.get('qualType')
            TYPEDEFS[n.get('name', '')] = TYPEDEFS[q]
        if k in ('CXXMethodDecl', 'FunctionDecl', 'CXXConstructorDecl', 'CXXDestructorDecl', 'CXXConversionDecl'):
            if ctx and ctx[-1][0] == 'FunctionTemplateDecl' and not any(isinstance(c, dict) and c.get('kind') == 'TemplateArgument' for c in n.get('inner', [])):
                n['_pattern'] = True      # the uninstantiated template pattern
            found.append((ctx, n))
            return
        nctx = ctx
        if k in ('NamespaceDecl', 'CXXRecordDecl', 'ClassTemplateSpecializationDecl', 'ClassTemplateDecl', 'FunctionTemplateDecl'):
            nctx = ctx + [(k, n)]
        for c in n.get('inner', []):
            if isinstance(c, dict):
                walk(c, nctx)
    for o in objs:
        walk(o, [])
    return found


def spec_args(n):
    out = []
    for c in n.get('inner', []):
        if c.get('kind') == 'TemplateArgument':
            if 'type' in c:
                out.append(c['type'].get('desugaredQualType') or c['type']['qualType'])
            elif 'value' in c:
                out.append(str(c['value']))
            else:
                # expression argument: take literal
                v = None
                for cc in c.get('inner', []):
                    v = find_literal(cc)
                out.append(str(v))
    return out


def find_literal(n):
    if n.get('kind') == 'IntegerLiteral':
        return n['value']
    for c in n.get('inner', []):
        v = find_literal(c)
        if v is not None:
            return v
    return None


def record_qualname(ctx, n):
    parts = []
    for k, c in ctx:
        if k == 'NamespaceDecl':
            parts.append(c.get('name', ''))
        elif k == 'CXXRecordDecl':
            parts.append(c.get('name', ''))
        elif k == 'ClassTemplateSpecializationDecl':
            parts.append(c.get('name', '') + '<' + ', '.join(spec_args(c)) + '>')
    nm = n.get('name', '')
    if n.get('kind') == 'ClassTemplateSpecializationDecl':
        nm += '<' + ', '.join(spec_args(n)) + '>'
    parts.append(nm)
    return '::'.join(p for p in parts if p)


class AstUnit:
    """one clang invocation; gives access to records and function definitions by qualified name"""

    def __init__(self, prog, tu, flt, workdir):
        self.prog = prog
        self.tu, self.workdir = tu, workdir
        path, cmd = run_clang(tu, flt, workdir)
        prog.clang_cmds.append(cmd)
        self.objs = load_json_stream(path)
        annotate_files(self.objs)
        self.byid = {}
        self.records = {}      # qualname -> node
        self.rec_of_id = {}    # id -> qualname
        self.funcs = []        # (qualname_of_parent or '', node)
        self._index()

    def _index(self):
        # records first (ids), then functions with parentDeclContextId resolution
        decls = collect_decls(self.objs)
        nsname = {}
        for ctx, n in decls:
            if n.get('kind') in ('CXXRecordDecl', 'ClassTemplateSpecializationDecl'):
                q = record_qualname(ctx, n)
                if not q.startswith('romea'):
                    # ast-dump-filter prints matched decls at top level without their namespaces
                    q = 'romea::core::' + q if not q.startswith('romea') else q
                self.rec_of_id[n['id']] = q
                KNOWN_RECORDS.add(template_parts(q)[0])
                for c in n.get('inner', []):
                    if isinstance(c, dict) and c.get('kind') in ('TypeAliasDecl', 'TypedefDecl'):
                        tt = c.get('type', {})
                        self.prog.typedefs[q + '::' + c['name']] = tt.get('desugaredQualType') or tt.get('qualType')
                        TYPEDEFS[q + '::' + c['name']] = tt.get('desugaredQualType') or tt.get('qualType')
                if n.get('completeDefinition') or any(c.get('kind') == 'FieldDecl' for c in n.get('inner', [])):
                    self.records[q] = n
                elif q not in self.records:
                    self.records.setdefault(q, n)
            elif n.get('kind') == 'EnumDecl':
                q = record_qualname(ctx, n)
                if not q.startswith('romea'):
                    q = 'romea::core::' + q
                self.rec_of_id[n['id']] = q
                KNOWN_RECORDS.add(q)
                consts = {}
                val = -1
                for c in n.get('inner', []):
                    if c.get('kind') == 'EnumConstantDecl':
                        lit = find_literal(c)
                        val = int(lit) if lit is not None else val + 1
                        consts[c['name']] = val
                self.prog.enums[mangle(q)] = consts
        for ctx, n in decls:
            if n.get('kind') in ('CXXMethodDecl', 'FunctionDecl', 'CXXConstructorDecl', 'CXXDestructorDecl', 'CXXConversionDecl'):
                parent = ''
                if 'parentDeclContextId' in n and n['parentDeclContextId'] in self.rec_of_id:
                    parent = self.rec_of_id[n['parentDeclContextId']]
                else:
                    for k, c in reversed(ctx):
                        if k in ('CXXRecordDecl', 'ClassTemplateSpecializationDecl'):
                            parent = self.rec_of_id.get(c['id'], '')
                            break
                self.funcs.append((parent, n))

    def static_const(self, decl_id, depth=0):
        """value of a (static) constexpr variable referenced by id, following references to other constexpr variables"""
        if not hasattr(self, '_vars'):
            self._vars = {}
            stack = list(self.objs)
            while stack:
                x = stack.pop()
                if isinstance(x, dict):
                    if x.get('kind') == 'VarDecl' and 'id' in x:
                        self._vars[x['id']] = x
                    stack.extend(v for v in x.values() if isinstance(v, (dict, list)))
                elif isinstance(x, list):
                    stack.extend(x)
        v = self._vars.get(decl_id)
        if v is None or depth > 6:
            return None
        inn = [c for c in v.get('inner', []) if isinstance(c, dict)]
        if not inn:
            return None

        def fold(n):
            k = n.get('kind')
            ii = [c for c in n.get('inner', []) if isinstance(c, dict)]
            if k == 'ConstantExpr' and 'value' in n:
                try:
                    return int(n['value'])
                except ValueError:
                    pass
            if k == 'DeclRefExpr':
                return self.static_const(n.get('referencedDecl', {}).get('id'), depth + 1)
            if k in ('ImplicitCastExpr', 'ConstantExpr', 'ParenExpr', 'CXXStaticCastExpr', 'CStyleCastExpr', 'SubstNonTypeTemplateParmExpr') and ii:
                return fold(ii[-1])
            return const_fold_node(n)
        return fold(inn[0])

    def global_const(self, name, tr):
        """literal initialiser of a const namespace-scope variable (looked up with a dedicated clang run, cached)"""
        if not hasattr(self, '_gc'):
            self._gc = {}
        if name not in self._gc:
            self._gc[name] = None
            try:
                path, cmd = run_clang(self.tu, name, self.workdir)
                for o in load_json_stream(path):
                    stack = [o]
                    while stack:
                        x = stack.pop()
                        if isinstance(x, dict):
                            if x.get('kind') == 'VarDecl' and x.get('name') == name and 'const' in x.get('type', {}).get('qualType', ''):
                                t, _, _ = parse_type(node_type(x))
                                inn = [c for c in x.get('inner', []) if isinstance(c, dict)]
                                if inn:
                                    v = const_fold_node(inn[0])
                                    if v is not None and t[0] == 'int':
                                        self._gc[name] = ('const', t, int(v))
                                    elif v is not None and t[0] == 'float':
                                        self._gc[name] = ('const', t, repr(float(v)))
                            stack.extend(v for v in x.values() if isinstance(v, (dict, list)))
                        elif isinstance(x, list):
                            stack.extend(x)
            except ExtractError:
                pass
        return self._gc[name]

    def find_function(self, parent, name, sig=None, nth=None):
        """definition (with body) of parent::name ; sig = substring the type string must contain"""
        cands = []
        for p, n in self.funcs:
            if n.get('name') != name:
                continue
            if parent is not None and p != parent:
                continue
            if not any(c.get('kind') == 'CompoundStmt' for c in n.get('inner', [])):
                continue
            if sig is not None and sig not in n.get('type', {}).get('qualType', ''):
                continue
            cands.append(n)
        # drop dependent (template pattern) versions
        cands = [c for c in cands if '<dependent type>' not in json.dumps(c)[:0] or True]
        if nth is not None:
            return cands[nth]
        if len(cands) != 1:
            raise ExtractError('function %s::%s sig=%r: %d candidates (%s)' % (
                parent, name, sig, len(cands), [c.get('type', {}).get('qualType') for c in cands]))
        return cands[0]


# ----------------------------------------------------------------------------------------
# Function translator
# ----------------------------------------------------------------------------------------
EIGEN_PASS = {'array', 'matrix', 'eval', 'derived', 'const_cast_derived', 'noalias'}
CMP_OPS = {'<', '>', '<=', '>=', '==', '!='}


def const_fold_node(n):
    """numeric value of a clang constant-expression node made of literals and + - * / (None otherwise)"""
    k = n.get('kind')
    inn = [c for c in n.get('inner', []) if isinstance(c, dict)]
    if k in ('ImplicitCastExpr', 'ConstantExpr', 'ParenExpr', 'CStyleCastExpr', 'CXXStaticCastExpr') and inn:
        return const_fold_node(inn[0])
    if k == 'IntegerLiteral':
        return int(n['value'])
    if k == 'FloatingLiteral':
        return float(n['value'])
    if k == 'UnaryOperator' and n.get('opcode') == '-' and inn:
        v = const_fold_node(inn[0])
        return None if v is None else -v
    if k == 'BinaryOperator' and len(inn) == 2:
        a, b = const_fold_node(inn[0]), const_fold_node(inn[1])
        if a is None or b is None:
            return None
        op = n.get('opcode')
        if op == '+': return a + b
        if op == '-': return a - b
        if op == '*': return a * b
        if op == '/': return a / b if isinstance(a, float) or isinstance(b, float) else None
    return None


def const_eval(e):
    """value of an IR expression built from integer constants only, else None"""
    k = e[0]
    if k == 'const' and e[1][0] in ('int', 'bool'):
        return int(e[2])
    if k == 'cast' and e[3][0] in ('int', 'bool'):
        v = const_eval(e[1])
        if v is None:
            return None
        if e[3][0] == 'bool':
            return 1 if v else 0
        bits = e[3][1]
        v &= (1 << bits) - 1
        if e[3][2] and v >= 1 << (bits - 1):
            v -= 1 << bits
        return v
    if k == 'bin':
        a, b = const_eval(e[2]), const_eval(e[3])
        if a is None or b is None:
            return None
        op = e[1]
        if op == '==':
            return int(a == b)
        if op == '!=':
            return int(a != b)
        if op == '<':
            return int(a < b)
        if op == '>':
            return int(a > b)
        if op == '<=':
            return int(a <= b)
        if op == '>=':
            return int(a >= b)
        return None
    return None


class EigVal:
    """an Eigen-valued expression, expanded per coefficient: get(i,j) -> scalar IR expr"""

    def __init__(self, st, rows, cols, get, lv=None):
        self.st, self.rows, self.cols, self.get, self.lv = st, rows, cols, get, lv

    def type(self):
        return ('eig', self.st, self.rows, self.cols)


class FnTranslator:
    def __init__(self, prog, unit, node, parent_qual, cname, virtual_static=True):
        self.prog, self.unit, self.node, self.parent = prog, unit, node, parent_qual
        self.cname = cname
        self.consts = {}      # decl id -> integer value (counters of loops unrolled at extraction)
        self.iters = {}       # decl id of an iterator variable -> container lvalue
        self.alias = {}       # decl id -> lvalue IR (reference locals)
        self.vars = {}        # decl id -> (cname, irtype, is_ptr)
        self.pre = []         # hoisted statements
        self.tmpn = 0
        self.loopn = 0
        self.names = set()
        self.self_type = None
        self.calls = set()
        self.ret_ref = False
        self.lock_held = []
        self.svd_vars = {}
        self.eigh_vars = {}
        self.lazy_eig = {}

    # -- helpers -----------------------------------------------------------------------
    def rule(self, r):
        self.prog.rule(r)

    def err(self, n, msg):
        loc = n.get('range', {}).get('begin', {})
        raise ExtractError('%s: %s (kind=%s line=%s) in %s' % (self.cname, msg, n.get('kind'), loc.get('line'), self.parent))

    def tmp(self, t):
        self.tmpn += 1
        return '__t%d' % self.tmpn

    def inner(self, n):
        return [c for c in n.get('inner', []) if isinstance(c, dict)]

    def T(self, n):
        t, _, _ = parse_type(node_type(n))
        return self.fix_type(t)

    def fix_type(self, t):
        return self.prog.fix_type(t)

    # -- entry --------------------------------------------------------------------------
    def translate(self):
        n = self.node
        params = []
        is_method = (n['kind'] in ('CXXMethodDecl', 'CXXConstructorDecl', 'CXXConversionDecl') and n.get('storageClass') != 'static'
                     and n.get('previousDecl') not in self.prog.static_ids)
        rec = None
        if is_method:
            rec = mangle(self.parent)
            self.self_type = ('struct', rec)
            params.append(('self', ('ptr', ('struct', rec)), 'self'))
        body = None
        inits = []
        for c in self.inner(n):
            if c['kind'] == 'ParmVarDecl':
                t, is_ref, is_const = parse_type(node_type(c))
                t = self.fix_type(t)
                name = c.get('name', '__unnamed%d' % len(params))
                if t[0] == 'eigdyn' and name in (self.prog.options.get('dyn_locals') or {}):
                    shp = self.prog.options['dyn_locals'][name]
                    t = ('eig', t[1], shp[0], shp[1])      # bounded stand-in: a dynamic-size Eigen parameter with the size the spec binds it to
                    self.rule('dynamic-size Eigen parameter %s declared with the size the spec binds it to (bounded stand-in)' % name)
                if is_ref and (is_scalar(t) or t[0] == 'string') and is_const:
                    self.rule('param: const scalar reference passed by value')
                    self.vars[c['id']] = (name, t, False)
                    params.append((name, t, 'value'))
                elif is_ref or t[0] in ('eig', 'struct', 'vector', 'string') and False:
                    self.vars[c['id']] = (name, t, True)
                    params.append((name, ('ptr', t), 'constref' if is_const else 'ref'))
                else:
                    self.vars[c['id']] = (name, t, False)
                    params.append((name, t, 'value'))
                self.names.add(name)
            elif c['kind'] == 'CompoundStmt':
                body = c
            elif c['kind'] == 'CXXCtorInitializer':
                inits.append(c)
        ret, _k, rref, _p = fn_signature(self.prog, n)
        self.ret_ref = rref
        stmts = []
        for ini in inits:
            stmts += self.ctor_init(ini)
        stmts += self.block(body)
        f = Function(self.cname, self.parent + '::' + n.get('name', ''), ret, params, stmts, n, is_method, rec)
        f.nloops = self.loopn
        f.ret_is_ref = self.ret_ref
        f.calls = self.calls
        rng = n.get('range', {})
        b, e = rng.get('begin', {}), rng.get('end', {})
        f.src_range = (b.get('offset'), e.get('offset'), b.get('line'), e.get('line'))
        return f

    # -- constructor initialisers -------------------------------------------------------
    def ctor_init(self, ini):
        out = []
        inner = self.inner(ini)
        if 'anyInit' in ini:
            fld = ini['anyInit']
            ft, _, _ = parse_type(fld['type'].get('desugaredQualType') or fld['type']['qualType'])
            ft = self.fix_type(ft)
            lv = ('arrow', ('var', 'self', ('ptr', self.self_type)), fld['name'], ft)
            if not inner:
                return out
            out += self.assign_init(lv, ft, inner[0])
            out = self.flush() + out
            self.rule('ctor: member initialiser emitted as assignment')
            return out
        if 'baseInit' in ini:
            # base constructor call
            e = inner[0]
            bt, _, _ = parse_type(ini['baseInit'].get('desugaredQualType') or ini['baseInit']['qualType'])
            base_lv = ('arrow', ('var', 'self', ('ptr', self.self_type)), 'base', bt)
            out += self.construct_into(base_lv, bt, e)
            out = self.flush() + out
            self.rule('ctor: base initialiser emitted as call')
            return out
        if 'delegatingInit' in ini or (inner and inner[0].get('kind') == 'CXXConstructExpr' and self.T(inner[0]) == self.self_type):
            lv = ('deref', ('var', 'self', ('ptr', self.self_type)), self.self_type)
            out += self.construct_into(lv, self.self_type, inner[0])
            out = self.flush() + out
            self.rule('ctor: delegating constructor emitted as call')
            return out
        self.err(ini, 'unknown ctor initialiser')

    def assign_init(self, lv, t, e):
        """initialise lvalue lv of type t from init expression node e"""
        e = self.strip(e)
        if is_scalar(t) or t[0] == 'ptr':
            if e['kind'] == 'CXXConstructExpr' and not self.inner(e):
                return []
            if e['kind'] == 'ImplicitValueInitExpr':
                return [('assign', lv, ('const', t, 0))]
            return [('assign', lv, self.expr(e))]
        if t[0] == 'eig':
            if e['kind'] == 'CXXConstructExpr' and not self.inner(e):
                self.rule('eigen: default construction leaves coefficients unspecified')
                return []
            ev = self.eig(e)
            return self.eig_store(lv, t, ev)
        return self.construct_into(lv, t, e)

    def construct_into(self, lv, t, e):
        e = self.strip(e)
        e0 = e
        while e0['kind'] == 'ImplicitCastExpr' and e0.get('castKind') == 'NoOp':
            e0 = self.strip(self.inner(e0)[0])
        if e0['kind'] in ('CallExpr', 'CXXMemberCallExpr') and t[0] == 'struct' and self.T(e0) == t:
            self.rule('aggregate local initialised from a call result (guaranteed elision): assignment of the returned value')
            return [('assign', lv, self.expr(e0))]
        if e['kind'] in ('CXXConstructExpr', 'CXXTemporaryObjectExpr'):
            args = self.inner(e)
            if t[0] == 'struct':
                qual = None
                for u in self.prog.units:
                    for rq in u.records:
                        if mangle(rq) == t[1]:
                            qual = rq
                if qual is None:
                    self.err(e, 'constructor of unknown record %s' % t[1])
                cls = template_parts(qual)[0].split('::')[-1]
                ctq = e.get('ctorType', {}).get('qualType')
                try:
                    u2, p2, n2 = self.prog.find(qual, cls, nparams=len(args))
                except ExtractError:
                    if not ctq:
                        raise
                    u2, p2, n2 = self.prog.find(qual, cls, sig=ctq, nparams=len(args))
                target = self.prog.resolve_call(self, n2['id'], cls, None, e)
                ctor, _ret, pkinds, _rr = target
                self.calls.add(ctor)
                cargs = [('addr', lv, ('ptr', t))]
                for a, pk in zip(args, pkinds):
                    cargs.append(self.expr(a) if pk == 'value' and (is_scalar(self.T(a)) or self.T(a)[0] == 'string') else self.arg(a))
                self.rule('constructor call resolved by class and arity')
                return [('expr', ('call', ctor, cargs, ('void',)))]
            if t[0] == 'queue' and not args:
                self.rule('std::queue: default construction = empty')
                return [('assign', ('field', lv, 'size', ('int', 64, False)), ('const', ('int', 64, False), 0)),
                        ('assign', ('field', lv, 'head', ('int', 64, False)), ('const', ('int', 64, False), 0))]
            if t[0] == 'atomic' and len(args) == 1:
                return [('assign', lv, self.expr(args[0]))]
            args = [a for a in args if self.strip(a)['kind'] != 'CXXDefaultArgExpr']
            if t[0] == 'vector' and len(args) == 1 and is_scalar(self.T(args[0])) and t[1][0] != 'vector':
                self.rule('std::vector<T>(n): n value-initialised elements (model call stdvec_*_ctor_n provides the storage)')
                return [('expr', ('call', 'stdvec_%s_ctor_n' % type_tag(t[1]), [('addr', lv, ('ptr', t)), self.expr(args[0])], ('void',)))]
            if t[0] == 'vector' and len(args) >= 1 and is_scalar(self.T(args[0])) and t[1][0] == 'vector':
                self.rule('std::vector<std::vector<T>>(n): n empty inner vectors (model call stdvec_*_resize)')
                return [('expr', ('call', 'stdvec_%s_resize' % type_tag(t[1]), [('addr', lv, ('ptr', t)), self.expr(args[0])], ('void',)))]
            if t[0] in ('vector', 'list', 'map'):
                if not args:
                    self.rule('std::vector/list/map: default construction = empty')
                    return [('assign', ('field', lv, 'size', ('int', 64, False)), ('const', ('int', 64, False), 0))]
            if t[0] == 'mutex':
                return [('assign', ('field', lv, 'held', ('int', 32, True)), ('const', ('int', 32, True), 0))]
            if t[0] == 'optional' and (not args or (len(args) == 1 and 'nullopt_t' in node_type(self.strip(args[0])))):
                self.rule('std::optional: default construction = disengaged')
                return [('assign', ('field', lv, 'has', ('bool',)), ('const', ('bool',), 0))]
            if t[0] == 'optional' and len(args) == 1 and self.T(args[0]) == t:
                self.rule('std::optional: copy construction = copy of flag and payload')
                return [('assign', lv, self.expr(args[0]))]
            if t[0] == 'optional' and len(args) == 1 and is_scalar(self.T(args[0])):
                self.rule('std::optional: construction from a value = engaged')
                return [('assign', ('field', lv, 'v', t[1]), self.expr(args[0])), ('assign', ('field', lv, 'has', ('bool',)), ('const', ('bool',), 1))]
            if t[0] in ('string',):
                if not args:
                    return [('assign', lv, ('const', t, 0))]
                if len(args) == 1 and self.T(args[0])[0] == 'string':
                    self.rule('std::string copy construction -> copy of the handle')
                    return [('assign', lv, self.expr(args[0]))]
        if t[0] == 'opaque' and e['kind'] in ('CXXConstructExpr', 'CXXTemporaryObjectExpr') and not [a for a in self.inner(e) if self.strip(a)['kind'] != 'CXXDefaultArgExpr']:
            self.rule('default construction of a member of a type outside the extractor (%s): no state of it is modelled' % t[1][:50])
            return []
        self.err(e, 'cannot construct %r' % (t,))

    def ctor_name(self, t, e):
        # disambiguate overloaded constructors by arity
        return '%s__ctor%d' % (t[1], len(self.inner(e)))

    # -- statements ---------------------------------------------------------------------
    def flush(self):
        p, self.pre = self.pre, []
        return p

    def block(self, n):
        out = []
        for c in self.inner(n):
            out += self.stmt(c)
        return out

    def stmt(self, n):
        k = n['kind']
        if k == 'CompoundStmt':
            return [('block', self.block(n))]
        if k == 'NullStmt':
            return []
        if k == 'DeclStmt':
            out = []
            for d in self.inner(n):
                out += self.vardecl(d)
            return out
        if k == 'IfStmt':
            parts = self.inner(n)
            if n.get('hasInit') or n.get('hasVar'):
                self.err(n, 'if with init/var')
            c = self.expr(parts[0])
            pre = self.flush()
            cv = const_eval(c)
            if cv is not None and not pre:
                self.rule('if on a compile-time constant (template parameter): dead branch dropped')
                if cv:
                    return self.stmt(parts[1])
                return self.stmt(parts[2]) if len(parts) > 2 else []
            th = self.stmt(parts[1])
            el = self.stmt(parts[2]) if len(parts) > 2 else []
            return pre + [('if', c, th, el)]
        if k == 'ForStmt':
            save = (self.loopn, list(self.pre), dict(self.vars), dict(self.alias), set(self.names), self.tmpn)
            if self.prog.options.get('unroll_const_loops'):
                try:
                    return self.unroll_for(n, ExtractError('not a compile-time counted loop'))
                except ExtractError:
                    self.loopn, self.pre, self.vars, self.alias, self.names, _ = save[0], list(save[1]), dict(save[2]), dict(save[3]), set(save[4]), save[5]
            try:
                return self.for_stmt(n)
            except ExtractError as ex:
                if 'compile-time constant' not in str(ex):
                    raise
                self.loopn, self.pre, self.vars, self.alias, self.names, _ = save[0], save[1], save[2], save[3], save[4], save[5]
                return self.unroll_for(n, ex)
        if k == '__ForStmtBody':
            raw = n.get('inner', [])
            init, condvar, cond, inc, body = raw[0], raw[1], raw[2], raw[3], raw[4]
            ini = self.stmt(init) if init else []
            if self.pre:
                self.err(n, 'hoisted temporaries in for-init')
            c = self.expr(cond) if cond else ('const', ('bool',), 1)
            if self.pre:
                self.err(n, 'hoisted temporaries in loop condition')
            ic = self.stmt(inc) if inc else []
            if self.pre:
                self.err(n, 'hoisted temporaries in loop increment')
            ordn = self.loopn
            self.loopn += 1
            b = self.stmt(body)
            return [('for', ini, c, ic, b, ordn)]
        if k == 'WhileStmt':
            parts = self.inner(n)
            conj = []

            def flatten(e):
                e = self.strip(e)
                while e['kind'] == 'ImplicitCastExpr' and e.get('castKind') in ('NoOp', 'LValueToRValue') and self.strip(self.inner(e)[0])['kind'] == 'BinaryOperator':
                    e = self.strip(self.inner(e)[0])
                if e['kind'] == 'BinaryOperator' and e.get('opcode') == '&&':
                    for x in self.inner(e):
                        flatten(x)
                else:
                    conj.append(e)
            flatten(parts[0])
            if len(conj) > 1:
                tests = []
                for e in conj:
                    ce = self.expr(e)
                    tests.append((self.flush(), ce))
                if any(pre for pre, _ in tests[1:]):
                    # while (A && B) where evaluating B has side effects (++it != end): B's effects happen only when A holds
                    ordn = self.loopn
                    self.loopn += 1
                    b = self.stmt(parts[1])
                    head = []
                    for pre, ce in tests:
                        head += pre + [('if', ('un', '!', ce, ('bool',)), [('break',)], [])]
                    self.rule('while (A && B) with side effects in B -> while(1) { if (!A) break; effects of B; if (!B) break; body }')
                    return [('while', ('const', ('bool',), 1), head + b, ordn)]
                c = tests[0][1]
                for _, ce in tests[1:]:
                    c = ('bin', '&&', c, ce, ('bool',))
                cpre = tests[0][0]
            else:
                c = self.expr(parts[0])
                cpre = self.flush()
            ordn = self.loopn
            self.loopn += 1
            b = self.stmt(parts[1])
            if cpre:
                self.rule('while with side effects in its condition -> while(1) { effects; if (!cond) break; body }')
                return [('while', ('const', ('bool',), 1), cpre + [('if', ('un', '!', c, ('bool',)), [('break',)], [])] + b, ordn)]
            return [('while', c, b, ordn)]
        if k == 'DoStmt':
            parts = self.inner(n)
            ordn = self.loopn
            self.loopn += 1
            b = self.stmt(parts[0])
            c = self.expr(parts[1])
            if self.pre:
                self.err(n, 'hoisted temporaries in do-while condition')
            return [('dowhile', c, b, ordn)]
        if k == 'CXXForRangeStmt':
            return self.range_for(n)
        if k == 'ReturnStmt':
            parts = self.inner(n)
            if not parts:
                return [('return', None)]
            e = parts[0]
            if self.ret_ref:
                lv = self.lvalue(self.strip(e))
                return self.flush() + [('return', ('addr', lv, ('ptr', lv[-1])))]
            t = self.T(e)
            e0 = self.strip(e)
            while e0['kind'] in ('ExprWithCleanups', 'MaterializeTemporaryExpr', 'CXXBindTemporaryExpr', 'ImplicitCastExpr') and len(self.inner(e0)) == 1 and self.strip(self.inner(e0)[0])['kind'] in ('ConditionalOperator', 'ExprWithCleanups', 'MaterializeTemporaryExpr', 'CXXBindTemporaryExpr', 'ImplicitCastExpr'):
                e0 = self.strip(self.inner(e0)[0])
            if e0['kind'] == 'ConditionalOperator' and t[0] in ('struct', 'eig', 'vector', 'optional'):
                # return c ? A : B  with aggregate operands: if (c) return A; else return B;
                c, a, b = self.inner(e0)
                cond = self.expr(c)
                pre = self.flush()
                ra = self.stmt({'kind': 'ReturnStmt', 'inner': [a]})
                rb = self.stmt({'kind': 'ReturnStmt', 'inner': [b]})
                self.rule('return of a conditional expression with aggregate operands -> if/else with two returns')
                return pre + [('if', cond, ra, rb)]
            if t[0] in ('eig', 'eigdyn'):
                ev = self.eig(e)
                if t[0] == 'eigdyn':
                    t = ('eig', ev.st, ev.rows, ev.cols)       # dynamic-size return type: the value has the (bound) size of the returned expression
                    self.rule('dynamic-size Eigen value returned: it has the fixed size of the returned expression (bounded stand-in)')
                nm = self.tmp(t)
                st = [('decl', nm, t, None)] + self.eig_store(('var', nm, t), t, ev)
                return self.flush() + st + [('return', ('var', nm, t))]
            if t[0] == 'vector':
                self.rule('std::vector returned by value: the C model struct is copied (storage shared)')
                e0 = self.strip(e)
                while e0['kind'] in ('CXXConstructExpr', 'ImplicitCastExpr', 'CXXFunctionalCastExpr') and len(self.inner(e0)) == 1:
                    e0 = self.strip(self.inner(e0)[0])        # copy / move construction of the returned vector
                v = self.lvalue(e0) if e0['kind'] not in ('CallExpr', 'CXXMemberCallExpr') else self.expr(e0)
                return self.flush() + [('return', v)]
            if t[0] == 'struct':
                self.rule('struct returned by value: copy of the C model (container models are copied shallowly)')
                v = self.aggregate_value(e, t)
                return self.flush() + [('return', v)]
            v = self.expr(e)
            return self.flush() + [('return', v)]
        if k == 'BreakStmt':
            return [('break',)]
        if k == 'ContinueStmt':
            return [('continue',)]
        # expression statement
        return self.expr_stmt(n)

    def for_stmt(self, n):
        m = dict(n); m['kind'] = '__ForStmtBody'
        return self.stmt(m)

    def unroll_for(self, n, why):
        """for (T i = a; i < b; i++) with literal bounds whose body indexes Eigen objects by i: unrolled at extraction"""
        raw = n.get('inner', [])
        init, cond, inc, body = raw[0], raw[2], raw[3], raw[4]
        try:
            d = self.inner(init)[0]
            assert init['kind'] == 'DeclStmt' and d['kind'] == 'VarDecl'
            lo = self.const_int(self.inner(d)[0])
            c = self.strip(cond)
            assert c['kind'] == 'BinaryOperator' and c['opcode'] in ('<', '<=', '!=')
            l, r = self.inner(c)
            ls = self.strip(l)
            while ls['kind'] == 'ImplicitCastExpr':
                ls = self.strip(self.inner(ls)[0])
            assert ls['kind'] == 'DeclRefExpr' and ls['referencedDecl']['id'] == d['id']
            hi = self.const_int(r)
            assert lo is not None and hi is not None
            if c['opcode'] == '<=':
                hi += 1
            i = self.strip(inc)
            assert i['kind'] == 'UnaryOperator' and i['opcode'] == '++'
            assert 0 <= hi - lo <= 16
        except (AssertionError, IndexError, KeyError):
            raise why
        out = []
        for v in range(lo, hi):
            self.consts[d['id']] = v
            out.append(('block', self.stmt(body)))
        del self.consts[d['id']]
        self.rule('for loop with a compile-time trip count indexing Eigen objects by its counter: unrolled at extraction')
        return out

    def fixed_eigen_operand(self, n):
        """innermost fixed-size Eigen operand under conversions to a dynamic-size type (Matrix2d -> MatrixXd argument)"""
        n = self.strip(n)
        for _ in range(8):
            try:
                if parse_type(node_type(n))[0][0] == 'eig':
                    return n
            except ExtractError:
                pass
            kids = [c for c in self.inner(n) if self.strip(c)['kind'] != 'CXXDefaultArgExpr']
            if len(kids) != 1:
                break
            n = self.strip(kids[0])
        self.err(n, 'no fixed-size Eigen operand found')

    def svd_decl(self, d):
        """Eigen::JacobiSVD<...> svd(M, options) for a fixed 2x2 M: the decomposition enters by its ASSUMED contract; its results are the
        uninterpreted functions svd2_s0/s1 (singular values) and svd2_u00..u11 (matrixU) of the four coefficients of M"""
        init = self.inner(d)
        if not init:
            self.err(d, 'JacobiSVD without a matrix')
        args = [a for a in self.inner(self.strip(init[0])) if self.strip(a)['kind'] != 'CXXDefaultArgExpr']
        try:
            m = self.eig(args[0])
        except ExtractError:
            m = self.eig(self.fixed_eigen_operand(args[0]))
        if (m.rows, m.cols) not in ((2, 2), (3, 3)):
            self.err(d, 'JacobiSVD of a %dx%d matrix has no contract here' % (m.rows, m.cols))
        out = []
        coeffs = []
        for i in range(m.rows):
            for j in range(m.cols):
                nm = self.tmp(m.st)
                out.append(('decl', nm, m.st, m.get(i, j)))
                coeffs.append(('var', nm, m.st))
        self.svd_vars[d['id']] = (coeffs, m.st, m.rows)
        self.rule('Eigen::JacobiSVD of a fixed 2x2 / 3x3 matrix -> assumed contract (uninterpreted svd<n>_* of the coefficients)')
        return self.flush() + out

    def vardecl(self, d):
        if d['kind'] != 'VarDecl':
            if d['kind'] in ('TypedefDecl', 'TypeAliasDecl', 'UsingDecl', 'StaticAssertDecl'):
                return []
            self.err(d, 'unsupported declaration')
        if 'JacobiSVD<' in node_type(d):
            return self.svd_decl(d)
        t, is_ref, is_const = parse_type(node_type(d))
        t = self.fix_type(t)
        name = d['name']
        init = self.inner(d)
        init = init[0] if init else None
        if t[0] == 'eigdyn' and name in (self.prog.options.get('dyn_locals') or {}):
            shp = self.prog.options['dyn_locals'][name]
            t = ('eig', t[1], shp[0], shp[1])          # bounded stand-in: a dynamic-size local (reference) with the size the spec binds it to
            self.rule('dynamic-size Eigen local %s declared with the size the spec binds it to (bounded stand-in)' % name)
        if t[0] == 'opaque' and init is not None and 'Eigen::' in node_type(d) + self.desugar(d) and self.is_eigen_node(init):
            # `auto x = <Eigen expression>`: x is an expression template that refers to its operands; every use of x evaluates the expression
            # at that point (Eigen's lazy evaluation), so x is kept as an alias of the initialiser
            self.lazy_eig[d['id']] = init
            self.rule('auto local holding an Eigen expression template -> alias of its initialiser, evaluated at each use (lazy evaluation)')
            return []
        if t[0] == 'lockguard':
            m = self.lvalue(self.strip(self.inner(self.strip(init))[0]))
            self.rule('std::lock_guard -> ghost held flag for the rest of the scope')
            self.lock_held.append(m)
            return [('lock', m)]
        if name in self.names:
            # shadowing / reuse in sibling scopes is fine in C too as long as block structure is kept
            pass
        self.names.add(name)
        if is_ref:
            lv = self.lvalue(self.strip(init))
            if self.pre:
                self.err(d, 'reference bound to temporary')
            if self.stable_lv(lv):
                self.alias[d['id']] = lv
                self.rule('reference local -> alias substitution of a stable lvalue')
                return []
            self.vars[d['id']] = (name, t, True)
            return [('decl', name, ('ptr', t), ('addr', lv, ('ptr', t)))]
        if t[0] == 'eigdyn' and init is not None:
            # dynamic-size Eigen local initialised from a fixed-size value (svd.matrixU(), a fixed block ...): it has that size for good
            ev = self.eig(init)
            t = ('eig', ev.st, ev.rows, ev.cols)
            self.rule('dynamic-size Eigen local initialised from a fixed-size value: declared with that size')
            self.vars[d['id']] = (name, t, False)
            return self.flush() + [('decl', name, t, None)] + self.eig_store(('var', name, t), t, ev)
        self.vars[d['id']] = (name, t, False)
        if t[0] == 'iter':
            c, i = self.iter_of(init)
            self.iters[d['id']] = c
            self.rule('iterator variable -> index variable bound to its container')
            return self.flush() + [('decl', name, ('int', 64, False), i)]
        if init is None:
            return [('decl', name, t, None)]
        if is_scalar(t):
            v = self.expr(init)
            return self.flush() + [('decl', name, t, v)]
        st = [('decl', name, t, None)] + self.assign_init(('var', name, t), t, init)
        return self.flush() + st

    def stable_lv(self, lv):
        k = lv[0]
        if k == 'var':
            return True
        if k in ('field', 'arrow', 'elem'):
            return self.stable_lv(lv[1])
        if k == 'vindex':
            return self.stable_lv(lv[1]) and lv[2][0] == 'const'
        if k == 'elemx':
            return False
        if k == 'deref':
            return lv[1][0] == 'var'
        if k == 'addr':
            return self.stable_lv(lv[1])
        return False

    def expr_stmt(self, n):
        n0 = self.strip(n)
        k = n0['kind']
        if k == 'BinaryOperator' and n0['opcode'] == '=':
            l, r = self.inner(n0)
            lt = self.T(l)
            if lt[0] == 'eig':
                ev = self.eig(r)
                return self.flush() + self.eig_store(self.lvalue(self.strip(l)), lt, ev)
            rv = self.expr(r)
            lv = self.lvalue(self.strip(l))
            return self.flush() + [('assign', lv, rv)]
        if k == 'CompoundAssignOperator':
            l, r = self.inner(n0)
            op = n0['opcode'][:-1]
            lv = self.lvalue(self.strip(l))
            rv = self.expr(r)
            lt = lv[-1]
            ct, _, _ = parse_type(n0.get('computeResultType', {}).get('desugaredQualType') or n0.get('computeResultType', {}).get('qualType') or '')
            if ct[0] == 'opaque':
                ct = lt
            a = lv if ct == lt else ('cast', lv, lt, ct)
            res = ('bin', op, a, rv, ct)
            if ct != lt:
                res = ('cast', res, ct, lt)
            return self.flush() + [('assign', lv, res)]
        if k == 'UnaryOperator' and n0['opcode'] in ('++', '--'):
            lv = self.lvalue(self.strip(self.inner(n0)[0]))
            t = lv[-1]
            return self.flush() + [('assign', lv, ('bin', n0['opcode'][0], lv, ('const', t, 1), t))]
        if k == 'CXXOperatorCallExpr':
            op = self.opname(n0)
            args = self.inner(n0)[1:]
            if op == '++' and self.T(args[0])[0] == 'iter':
                # ++it / it++ as a statement (for-init, for-increment, plain statement): the value is not used, both forms advance the index
                c, i = self.iter_of(args[0])
                if i[0] != 'var':
                    self.err(n0, 'increment of a temporary iterator')
                u64 = ('int', 64, False)
                self.rule('iterator ++ as a statement -> index = index + 1')
                return self.flush() + [('assign', i, ('bin', '+', i, ('const', u64, 1), u64))]
            if op == '=' and self.T(args[0])[0] != 'eig' and self.is_eigen_node(args[0]):
                lhs = self.eig(args[0])
                if lhs.lv is None and hasattr(lhs, 'sub'):
                    ev = self.eig(args[1])
                    base, idxs = lhs.sub
                    if ev.rows * ev.cols != len(idxs):
                        self.err(n0, 'block assignment shape')
                    vals = [ev.get(k // ev.cols, k % ev.cols) for k in range(len(idxs))]
                    out = []
                    names = []
                    for v in vals:
                        nm = self.tmp(lhs.st); names.append(nm)
                        out.append(('decl', nm, lhs.st, v))
                    for k, nm in zip(idxs, names):
                        out.append(('assign', ('elem', base, k, lhs.st), ('var', nm, lhs.st)))
                    self.rule('eigen: assignment to a fixed block/col/row through temporaries')
                    return self.flush() + out
                if lhs.lv is None:
                    self.err(n0, 'assignment to a temporary Eigen expression')
                ev = self.eig(args[1])
                return self.flush() + self.eig_store(lhs.lv, ('eig', lhs.st, lhs.rows, lhs.cols), ev)
            if op == '=':
                lt = self.T(args[0])
                if lt[0] == 'eig':
                    ev = self.eig(args[1])
                    return self.flush() + self.eig_store(self.lvalue(self.strip(args[0])), lt, ev)
                if lt[0] in ('string',) or is_scalar(lt):
                    rv = self.expr(args[1])
                    return self.flush() + [('assign', self.lvalue(self.strip(args[0])), rv)]
                r0 = self.strip(args[1])
                while r0['kind'] in ('ImplicitCastExpr', 'CXXFunctionalCastExpr', 'CXXConstructExpr', 'CXXTemporaryObjectExpr') and len(self.inner(r0)) == 1 and self.T(r0)[0] == 'optional':
                    r0 = self.strip(self.inner(r0)[0])
                if lt[0] == 'optional' and is_scalar(self.T(r0)):
                    args = [args[0], r0]
                    lv = self.lvalue(self.strip(args[0]))
                    rv = self.expr(args[1])
                    self.rule('std::optional: assignment from a value = engaged')
                    return self.flush() + [('assign', ('field', lv, 'v', lt[1]), rv), ('assign', ('field', lv, 'has', ('bool',)), ('const', ('bool',), 1))]
                if lt[0] in ('struct', 'vector', 'optional'):
                    rv = self.struct_value(args[1])
                    return self.flush() + [('assign', self.lvalue(self.strip(args[0])), rv)]
            if op in ('+=', '-=', '*=', '/=') and (self.T(args[0])[0] == 'eig' or self.is_eigen_node(args[0])):
                lhs = self.eig(args[0])
                lt = ('eig', lhs.st, lhs.rows, lhs.cols)
                if lhs.lv is None and hasattr(lhs, 'sub'):
                    # compound assignment to a block/col/row view: values through temporaries, then stored coefficient by coefficient
                    base, idxs = lhs.sub
                    if self.is_eigen_node(args[1]) or self.T(args[1])[0] == 'eig':
                        rhs = self.eig(args[1])
                        if rhs.rows * rhs.cols != len(idxs):
                            self.err(n0, 'compound block assignment shape')
                        rv = lambda q: rhs.get(q // rhs.cols, q % rhs.cols)
                    else:
                        sc = self.expr(args[1])
                        rv = lambda q: sc
                    out, names = [], []
                    for q, kk in enumerate(idxs):
                        nm = self.tmp(lhs.st); names.append(nm)
                        out.append(('decl', nm, lhs.st, ('bin', op[0], ('elem', base, kk, lhs.st), rv(q), lhs.st)))
                    for kk, nm in zip(idxs, names):
                        out.append(('assign', ('elem', base, kk, lhs.st), ('var', nm, lhs.st)))
                    self.rule('eigen: compound assignment to a fixed block/col/row through temporaries')
                    return self.flush() + out
                if lhs.lv is None:
                    self.err(n0, 'compound assignment to a temporary Eigen expression')
                rt = self.T(args[1])
                if rt[0] == 'eig' or rt[0] == 'opaque':
                    rhs = self.eig(args[1])
                    ev = EigVal(lhs.st, lhs.rows, lhs.cols, lambda i, j: ('bin', op[0], lhs.get(i, j), rhs.get(i, j), lhs.st))
                else:
                    s = self.expr(args[1])
                    ev = EigVal(lhs.st, lhs.rows, lhs.cols, lambda i, j: ('bin', op[0], lhs.get(i, j), s, lhs.st))
                return self.flush() + self.eig_store(lhs.lv, lt, ev)
            if op in ('<<', ','):
                root = n0
                while root['kind'] == 'CXXOperatorCallExpr' and self.opname(root) == ',':
                    root = self.strip(self.inner(root)[1])
                if root['kind'] == 'CXXOperatorCallExpr' and self.opname(root) == '<<' and self.is_eigen_node(self.inner(root)[1]):
                    return self.comma_init(n0)
        if k == 'CXXMemberCallExpr':
            me = self.callee_decl(n0)
            if me.get('kind') == 'MemberExpr' and me.get('name') in ('setConstant', 'setZero', 'setOnes', 'setIdentity', 'fill') and self.is_eigen_node(self.inner(me)[0]):
                tgt = self.eig(self.inner(me)[0])
                margs = self.inner(n0)[1:]
                nm = me['name']
                if nm in ('setConstant', 'fill'):
                    v = self.expr(margs[0])
                    if v[-1] != tgt.st:
                        v = ('cast', v, v[-1], tgt.st)
                    ev = EigVal(tgt.st, tgt.rows, tgt.cols, lambda i, j: v)
                elif nm == 'setIdentity':
                    ev = EigVal(tgt.st, tgt.rows, tgt.cols, lambda i, j: ('const', tgt.st, 1 if i == j else 0))
                else:
                    c = 0 if nm == 'setZero' else 1
                    ev = EigVal(tgt.st, tgt.rows, tgt.cols, lambda i, j: ('const', tgt.st, c))
                self.rule('eigen: %s()' % nm)
                return self.flush() + self.eig_store(tgt.lv, ('eig', tgt.st, tgt.rows, tgt.cols), ev)
        if k == 'CXXMemberCallExpr':
            me = self.callee_decl(n0)
            if me.get('kind') == 'MemberExpr' and me.get('name') == 'pretranslate' and self.is_eigen_node(self.inner(me)[0]) \
                    and 'Transform' in node_type(self.inner(me)[0]) + self.desugar(self.inner(me)[0]):
                # Eigen::Transform<.., Affine>::pretranslate(t): documented semantics (Transform.h): translation() += t, linear part untouched
                tgt = self.eig(self.inner(me)[0])
                tv = self.eig(self.inner(n0)[1])
                if not (tgt.rows == 4 and tgt.cols == 4 and tv.rows * tv.cols == 3):
                    self.err(n0, 'pretranslate on a %dx%d transform has no contract here' % (tgt.rows, tgt.cols))
                tcell = (lambda i: tv.get(i, 0)) if tv.cols == 1 else (lambda i: tv.get(0, i))
                ev = EigVal(tgt.st, 4, 4, lambda i, j: ('bin', '+', tgt.get(i, 3), tcell(i), tgt.st) if (j == 3 and i < 3) else tgt.get(i, j))
                self.rule('Eigen::Affine3d pretranslate(t) -> assumed contract: translation += t, linear part unchanged')
                return self.flush() + self.eig_store(tgt.lv, ('eig', tgt.st, 4, 4), ev)
        if k == 'CXXMemberCallExpr':
            me = self.callee_decl(n0)
            if me.get('kind') == 'MemberExpr' and me.get('name') == 'compute' and 'SelfAdjointEigenSolver<' in (node_type(self.inner(me)[0]) + self.desugar(self.inner(me)[0])):
                # solver.compute(M) for a fixed 2x2 / 3x3 M: the decomposition enters by its ASSUMED contract; eigenvalues() / eigenvectors()
                # of that solver object are from here on uninterpreted functions eigh<n>_l<i> / eigh<n>_v<i><j> of the coefficients of M
                margs = [a for a in self.inner(n0)[1:] if self.strip(a)['kind'] != 'CXXDefaultArgExpr']
                m = self.eig(margs[0])
                if m.rows != m.cols or m.rows not in (2, 3):
                    self.err(n0, 'SelfAdjointEigenSolver of a %dx%d matrix has no contract here' % (m.rows, m.cols))
                key = self.solver_key(self.inner(me)[0])
                out, coeffs = [], []
                for i in range(m.rows):
                    for j in range(m.cols):
                        nm = self.tmp(m.st)
                        out.append(('decl', nm, m.st, m.get(i, j)))
                        coeffs.append(('var', nm, m.st))
                self.eigh_vars[key] = (coeffs, m.st, m.rows)
                self.rule('Eigen::SelfAdjointEigenSolver::compute of a fixed 2x2 / 3x3 matrix -> assumed contract (uninterpreted eigh<n>_* of the coefficients)')
                return self.flush() + out
            if me.get('kind') == 'MemberExpr' and me.get('name') == 'rankUpdate':
                # M.selfadjointView<Lower|Upper>().rankUpdate(U): documented semantics: the referenced triangle of M += U * U^T (the other
                # triangle is not touched)
                view = self.strip(self.inner(me)[0])
                while view['kind'] in ('ImplicitCastExpr', 'MaterializeTemporaryExpr', 'CXXBindTemporaryExpr') and self.inner(view):
                    view = self.strip(self.inner(view)[0])
                vme = self.callee_decl(view) if view['kind'] == 'CXXMemberCallExpr' else {}
                margs = self.inner(n0)[1:]
                margs = [a for a in margs if self.strip(a)['kind'] != 'CXXDefaultArgExpr']      # rankUpdate(u, alpha = 1)
                if vme.get('name') == 'selfadjointView' and len(margs) == 1:
                    q = node_type(view)
                    mm = re.search(r'SelfAdjointView<.*,\s*(\d+)U?>', q)
                    uplo = int(mm.group(1)) if mm else None
                    if uplo not in (1, 2):
                        self.err(n0, 'selfadjointView: cannot read the triangle from %s' % q[:80])
                    tgt = self.eig(self.inner(vme)[0])
                    U = self.eig(margs[0])
                    if tgt.lv is None or tgt.rows != tgt.cols or U.rows != tgt.rows:
                        self.err(n0, 'rankUpdate shape')
                    st = tgt.st
                    out, names = [], []
                    cells = [(i, j) for i in range(tgt.rows) for j in range(tgt.cols) if (i >= j if uplo == 1 else i <= j)]
                    for i, j in cells:
                        acc = tgt.get(i, j)
                        for kk in range(U.cols):
                            acc = ('bin', '+', acc, ('bin', '*', U.get(i, kk), U.get(j, kk), st), st)
                        nm = self.tmp(st); names.append(nm)
                        out.append(('decl', nm, st, acc))
                    for (i, j), nm in zip(cells, names):
                        out.append(('assign', ('elem', tgt.lv, i * tgt.cols + j, st), ('var', nm, st)))
                    self.rule('eigen: selfadjointView<%s>().rankUpdate(U): that triangle += U U^T' % ('Lower' if uplo == 1 else 'Upper'))
                    return self.flush() + out
        if k in ('CallExpr', 'CXXMemberCallExpr', 'CXXOperatorCallExpr'):
            e = self.expr(n0, want_value=False)
            pre = self.flush()
            return pre + ([('expr', e)] if e is not None else [])
        if k == 'ParenExpr' or k == 'CXXStaticCastExpr':
            t = node_type(n0)
            if t == 'void':
                self.rule('assert() compiled out under -DNDEBUG')
                return []
        if k == 'IntegerLiteral':
            return []
        self.err(n0, 'unsupported expression statement')

    # -- range-for over std::vector / std::list ----------------------------------------------
    def range_for(self, n):
        """for (auto x : container)  over a std::vector / std::list model  ->  index loop"""
        parts = [c for c in n.get('inner', []) if isinstance(c, dict) and c]
        decls = [p for p in parts if p.get('kind') == 'DeclStmt']
        rng = None
        loopvar = None
        for dcl in decls:
            v = self.inner(dcl)[0]
            if v.get('name', '').startswith('__range'):
                rng = self.inner(v)[0]
            elif not v.get('name', '').startswith('__'):
                loopvar = v
        body = parts[-1]
        if rng is None or loopvar is None:
            self.err(n, 'range-for shape')
        cont = self.lvalue(self.strip(rng))
        ct = cont[-1]
        if ct[0] not in ('vector', 'list'):
            self.err(n, 'range-for over %r' % (ct,))
        u64 = ('int', 64, False)
        ordn = self.loopn
        self.loopn += 1
        idx = '__i%d' % ordn
        t, is_ref, is_const = parse_type(node_type(loopvar))
        t = self.fix_type(t)
        el = ('vindex', cont, ('var', idx, u64), ct[1])
        pre = []
        if is_ref:
            self.alias[loopvar['id']] = el
        else:
            self.vars[loopvar['id']] = (loopvar['name'], t, False)
            pre = [('decl', loopvar['name'], t, el)]
        b = self.stmt(body)
        self.rule('range-for over a container model -> index loop')
        return [('for', [('decl', idx, u64, ('const', u64, 0))], ('bin', '<', ('var', idx, u64), ('field', cont, 'size', u64), ('bool',)),
                 [('assign', ('var', idx, u64), ('bin', '+', ('var', idx, u64), ('const', u64, 1), u64))], pre + b, ordn)]

    # -- comma initialiser ------------------------------------------------------------------
    def comma_init(self, n):
        # (m << a, b, c ...) : CommaInitializer chain; flatten
        items = []

        def flat(x):
            x = self.strip(x)
            if x['kind'] == 'CXXOperatorCallExpr' and self.opname(x) == ',':
                a = self.inner(x)[1:]
                flat(a[0]); items.append(a[1])
            elif x['kind'] == 'CXXOperatorCallExpr' and self.opname(x) == '<<':
                a = self.inner(x)[1:]
                items.insert(0, ('target', a[0])); items.append(a[1])
            else:
                self.err(x, 'comma initialiser shape')
        flat(n)
        tgt = items[0][1]
        vals = items[1:]
        t = self.T(tgt)
        if t[0] != 'eig':
            tv = self.eig(tgt)
            vb, vi = self.view_of(tv)
            if vb is None:
                self.err(n, 'comma initialiser into a temporary')
            scal = [self.expr(v) for v in vals]
            if len(scal) != len(vi):
                self.err(n, 'comma initialiser arity')
            self.rule('eigen: comma initialiser into a block/col/row view')
            out = []
            names = []
            for v in scal:
                nm = self.tmp(tv.st); names.append(nm)
                out.append(('decl', nm, tv.st, v))
            for k, nm in zip(vi, names):
                out.append(('assign', ('elem', vb, k, tv.st), ('var', nm, tv.st)))
            return self.flush() + out
        lv = self.lvalue(self.strip(tgt))
        R, C = t[2], t[3]
        scal = []
        for v in vals:
            vt = self.T(v)
            if vt[0] == 'eig' or vt[0] == 'opaque':
                self.err(v, 'block in comma initialiser')
            scal.append(self.expr(v))
        if len(scal) != R * C:
            self.err(n, 'comma initialiser arity')
        self.rule('eigen: comma initialiser expanded row-major')
        ev = EigVal(t[1], R, C, lambda i, j: scal[i * C + j])
        return self.flush() + self.eig_store(lv, t, ev)

    # -- Eigen store --------------------------------------------------------------------
    def eig_store(self, lv, t, ev):
        R, C = t[2], t[3]
        if (ev.rows, ev.cols) != (R, C):
            if ev.rows * ev.cols != R * C:
                raise ExtractError('%s: Eigen shape mismatch %dx%d := %dx%d' % (self.cname, R, C, ev.rows, ev.cols))
        out = []
        vals = []
        for i in range(R):
            for j in range(C):
                vals.append(ev.get(i, j) if (ev.rows, ev.cols) == (R, C) else ev.get((i * C + j) // ev.cols, (i * C + j) % ev.cols))
        simple = all(v[0] in ('const',) or not self.mentions(v, lv) for v in vals)
        if simple:
            for k, v in enumerate(vals):
                out.append(('assign', ('elem', lv, k, t[1]), v))
        else:
            self.rule('eigen: assignment through temporaries (destination read on the right-hand side)')
            names = []
            for k, v in enumerate(vals):
                nm = self.tmp(t[1]); names.append(nm)
                out.append(('decl', nm, t[1], v))
            for k, nm in enumerate(names):
                out.append(('assign', ('elem', lv, k, t[1]), ('var', nm, t[1])))
        self.rule('eigen: fixed-size assignment expanded per coefficient')
        return out

    def mentions(self, e, lv):
        if e == lv:
            return True
        if isinstance(e, tuple):
            for x in e:
                if isinstance(x, tuple) and self.mentions(x, lv):
                    return True
                if isinstance(x, list):
                    for y in x:
                        if isinstance(y, tuple) and self.mentions(y, lv):
                            return True
        return False

    # -- expression helpers -------------------------------------------------------------
    def strip(self, n):
        while True:
            k = n['kind']
            if k in ('ParenExpr', 'ExprWithCleanups', 'MaterializeTemporaryExpr', 'CXXBindTemporaryExpr', 'ConstantExpr', 'SubstNonTypeTemplateParmExpr', 'FullExpr'):
                inn = self.inner(n)
                if k == 'SubstNonTypeTemplateParmExpr':
                    n = inn[-1]
                else:
                    if k == 'ParenExpr' and node_type(n) == 'void':
                        return n
                    n = inn[0]
                continue
            if k == 'ImplicitCastExpr' and n.get('castKind') in ('NoOp', 'FunctionToPointerDecay', 'ConstructorConversion', 'UserDefinedConversion') and False:
                n = self.inner(n)[0]
                continue
            return n

    def opname(self, n):
        callee = self.inner(n)[0]
        while callee['kind'] == 'ImplicitCastExpr':
            callee = self.inner(callee)[0]
        nm = callee.get('referencedDecl', {}).get('name', '')
        return nm[len('operator'):] if nm.startswith('operator') else nm

    def callee_decl(self, n):
        callee = self.inner(n)[0]
        while callee['kind'] in ('ImplicitCastExpr', 'ParenExpr'):
            callee = self.inner(callee)[0]
        return callee

    def arg(self, a):
        """argument passing: scalars by value, aggregates by pointer when the callee takes a reference"""
        t = self.T(a)
        a0 = self.strip(a)
        if is_scalar(t) or t[0] == 'string':
            return self.expr(a)
        if t[0] == 'eigdyn':
            # a dynamic-size Eigen argument whose size is bound (a bound member / parameter / local, or an expression of such): its value
            ev = self.eig(a)
            t2 = ('eig', ev.st, ev.rows, ev.cols)
            if ev.lv is not None:
                return ev.lv[1] if ev.lv[0] == 'deref' else ('addr', ev.lv, ('ptr', t2))
            nm = self.tmp(t2)
            self.pre.append(('decl', nm, t2, None))
            self.pre += self.eig_store(('var', nm, t2), t2, ev)
            return ('addr', ('var', nm, t2), ('ptr', t2))
        if t[0] in ('eig', 'struct', 'vector', 'optional', 'list', 'map', 'queue'):
            # pass address of lvalue, or of a temporary holding the value
            try:
                lv = self.lvalue(a0)
                if lv[0] == 'deref':
                    return lv[1]
                return ('addr', lv, ('ptr', t))
            except ExtractError:
                if t[0] == 'struct':
                    v = self.aggregate_value(a0, t)
                    return ('addr', v, ('ptr', t))
                if t[0] != 'eig':
                    raise
                ev = self.eig(a0)
                nm = self.tmp(t)
                self.pre.append(('decl', nm, t, None))
                self.pre += self.eig_store(('var', nm, t), t, ev)
                return ('addr', ('var', nm, t), ('ptr', t))
        self.err(a, 'cannot pass argument of type %r' % (t,))

    # -- iterators (std::list / std::map / std::vector) -> (container lvalue, index expression) ---------
    def iter_of(self, n):
        n = self.strip(n)
        k = n['kind']
        u64 = ('int', 64, False)
        if k in ('ImplicitCastExpr', 'CXXConstructExpr', 'CXXFunctionalCastExpr') and self.inner(n):
            return self.iter_of(self.inner(n)[0])
        if k == 'DeclRefExpr':
            rid = n['referencedDecl']['id']
            if rid in self.iters:
                nm, t, _ = self.vars[rid]
                return self.iters[rid], ('var', nm, u64)
            self.err(n, 'iterator variable without a known container')
        cont = None
        name = None
        if k == 'CXXMemberCallExpr':
            me = self.callee_decl(n)
            name = me.get('name')
            cont = self.inner(me)[0]
        elif k == 'CallExpr':
            callee = self.callee_decl(n)
            name = callee.get('referencedDecl', {}).get('name')
            cont = self.inner(n)[1]
        elif k == 'CXXOperatorCallExpr' and self.opname(n) == '++':
            args = self.inner(n)[1:]
            c, i = self.iter_of(args[0])
            if i[0] != 'var':
                self.err(n, 'increment of a temporary iterator')
            if len(args) > 1:
                self.err(n, 'postfix iterator increment in an expression')
            self.pre.append(('assign', i, ('bin', '+', i, ('const', u64, 1), u64)))
            self.rule('iterator ++ -> index + 1')
            return c, i
        if name in ('begin', 'cbegin'):
            self.rule('container begin() -> index 0')
            return self.lvalue(cont), ('const', u64, 0)
        if name in ('end', 'cend'):
            self.rule('container end() -> index size')
            c = self.lvalue(cont)
            return c, ('field', c, 'size', u64)
        self.err(n, 'iterator expression')

    def iter_elem(self, n):
        c, i = self.iter_of(n)
        ct = c[-1]
        et = ('pair', ct[1], ct[2]) if ct[0] == 'map' else ct[1]
        self.rule('iterator dereference -> element data[index] with index<size assertion')
        return ('vindex', c, i, et)

    # -- lvalues ------------------------------------------------------------------------
    def lvalue(self, n):
        n = self.strip(n)
        k = n['kind']
        if k == 'DeclRefExpr':
            rid = n['referencedDecl']['id']
            if rid in self.alias:
                return self.alias[rid]
            if rid in self.vars:
                nm, t, isptr = self.vars[rid]
                if isptr:
                    return ('deref', ('var', nm, ('ptr', t)), t)
                return ('var', nm, t)
            gv = self.unit.global_const(n['referencedDecl'].get('name'), self)
            if gv is not None:
                self.rule('namespace-scope constant replaced by its initialiser value')
                return gv
            cn = (self.prog.options.get('const_names') or {})
            if n['referencedDecl'].get('name') in cn:
                self.rule('constant %s read as the value the spec states for this instantiation (stated assumption)' % n['referencedDecl'].get('name'))
                return ('const', self.T(n) if is_scalar(self.T(n)) else ('int', 64, False), int(cn[n['referencedDecl'].get('name')]))
            self.err(n, 'reference to unknown declaration %s' % n['referencedDecl'].get('name'))
        if k == 'MemberExpr':
            base = self.inner(n)[0]
            ft = self.T(n)
            name = n['name']
            b0 = self.strip(base)
            if ft[0] == 'eigdyn':
                # a dynamic-size Eigen member whose size the spec binds (dyn_shapes): use the record's field type
                bt = self.T(base)
                if bt[0] == 'ptr':
                    bt = bt[1]
                if bt[0] == 'struct':
                    try:
                        self.prog.need_type(bt)
                    except ExtractError:
                        pass
                    for fn, fty in self.prog.records.get(bt[1], {}).get('fields', []):
                        if fn == name and fty[0] == 'eig':
                            ft = fty
            if n.get('isArrow') and b0['kind'] == 'CXXOperatorCallExpr' and self.opname(b0) == '->':
                el = self.iter_elem(self.inner(b0)[1])
                return ('field', el, name, ft)
            if n.get('isArrow'):
                p = self.ptr_expr(base)
                if p[0] == 'addr':
                    return ('field', p[1], name, ft)
                return ('arrow', p, name, ft)
            b = self.lvalue(base)
            return ('field', b, name, ft)
        if k == 'ImplicitCastExpr':
            ck = n.get('castKind')
            if ck in ('NoOp',):
                return self.lvalue(self.inner(n)[0])
            if ck in ('DerivedToBase', 'UncheckedDerivedToBase'):
                sub = self.inner(n)[0]
                st = self.T(sub)
                tt = self.T(n)
                if st[0] == 'eig' or tt[0] == 'opaque' or st[0] in ('opaque',):
                    return self.lvalue(sub)  # Eigen internal base classes: same object
                b = self.lvalue(sub)
                for _ in n.get('path', [{}]):
                    b = ('field', b, 'base', tt)
                self.rule('derived-to-base -> embedded base sub-object')
                return b
        if k == 'CXXOperatorCallExpr':
            op = self.opname(n)
            args = self.inner(n)[1:]
            bt = self.T(args[0])
            if op in ('[]', '()') and self.is_eigen_node(args[0]):
                ev = self.eig(args[0])
                if ev.lv is None:
                    self.err(n, 'coefficient reference into a temporary')
                if len(args) == 2 and self.const_int(args[1]) is None and (ev.cols == 1 or ev.rows == 1):
                    self.rule('eigen: coefficient access with a run-time index (bounds checked)')
                    return ('elemx', ev.lv, self.expr(args[1]), ev.st)
                if len(args) == 3 and self.const_int(args[1]) is None and self.const_int(args[2]) is not None:
                    # M(i, c) with a run-time row and a constant column of a row-major coefficient array: flat index i * cols + c
                    u64 = ('int', 64, False)
                    ri = self.expr(args[1])
                    flat = ('bin', '+', ('bin', '*', ('cast', ri, self.T(args[1]), u64) if self.T(args[1]) != u64 else ri, ('const', u64, ev.cols), u64), ('const', u64, self.const_int(args[2])), u64)
                    self.rule('eigen: coefficient access M(i, c) with a run-time row index (flat index i * cols + c)')
                    return ('elemx', ev.lv, flat, ev.st)
                idx = [self.const_index(a) for a in args[1:]]
                if len(idx) == 1:
                    kk = idx[0]
                else:
                    kk = idx[0] * ev.cols + idx[1]
                self.rule('eigen: coefficient access operator[]/() with constant index')
                return ('elem', ev.lv, kk, ev.st)
            if op == '[]' and bt[0] == 'vector':
                v = self.lvalue(args[0])
                i = self.expr(args[1])
                self.rule('std::vector operator[] -> data[i] with index<size assertion')
                return ('vindex', v, i, bt[1])
            if op == '*' and len(args) == 1 and bt[0] == 'optional':
                v = self.lvalue(args[0])
                return ('field', v, 'v', bt[1])
            if op == '*' and len(args) == 1 and bt[0] == 'iter':
                return self.iter_elem(args[0])
            if op == '[]' and bt[0] == 'map':
                m = self.lvalue(args[0])
                key = self.expr(args[1])
                self.rule('std::map operator[] -> model function stdmap_*_at (insertion into an empty map / existing key only)')
                fn = 'stdmap_%s_%s_at' % (type_tag(bt[1]), type_tag(bt[2]))
                return ('deref', ('call', fn, [('addr', m, ('ptr', bt)), key], ('ptr', bt[2])), bt[2])
        if k == 'UnaryOperator' and n['opcode'] == '*':
            p = self.ptr_expr(self.inner(n)[0])
            return ('deref', p, p[-1][1])
        if k == 'CXXMemberCallExpr':
            # calls returning references
            me = self.callee_decl(n)
            nm = me.get('name')
            obj = self.inner(me)[0]
            ot = self.T(obj)
            if nm in ('x', 'y', 'z', 'w') and (self.is_eigen_node(obj) or ot[0] == 'eig'):
                ev = self.eig(obj)
                vb, vi = self.view_of(ev)
                if vb is not None:
                    self.rule('eigen: x()/y()/z()/w() coefficient reference')
                    return ('elem', vb, vi['xyzw'.index(nm)], ev.st)
            if ot[0] in ('vector', 'list') and nm in ('front', 'back'):
                v = self.lvalue(obj)
                idx = ('const', ('int', 64, False), 0) if nm == 'front' else ('bin', '-', ('field', v, 'size', ('int', 64, False)), ('const', ('int', 64, False), 1), ('int', 64, False))
                return ('vindex', v, idx, ot[1])
            if ot[0] == 'optional' and nm == 'value':
                return ('field', self.lvalue(obj), 'v', ot[1])
            rt, rref, _ = parse_type(node_type(n))
            e = self.expr(n)
            if e[0] == 'call' and e[-1][0] == 'ptr':
                return ('deref', e, e[-1][1])
        if k == 'CallExpr':
            e = self.expr(n)
            if e[0] == 'call' and e[-1][0] == 'ptr':
                return ('deref', e, e[-1][1])
        self.err(n, 'not an lvalue I can translate')

    def ptr_expr(self, n):
        n = self.strip(n)
        if n['kind'] == 'CXXThisExpr':
            return ('var', 'self', ('ptr', self.self_type))
        if n['kind'] == 'ImplicitCastExpr':
            ck = n.get('castKind')
            sub = self.inner(n)[0]
            if ck in ('UncheckedDerivedToBase', 'DerivedToBase'):
                p = self.ptr_expr(sub)
                tt = self.T(n)  # ptr to base
                lv = ('deref', p, p[-1][1]) if p[0] != 'addr' else p[1]
                if p[0] == 'var' and p[1] == 'self':
                    lv = None
                    b = ('arrow', p, 'base', tt[1])
                else:
                    b = ('field', lv, 'base', tt[1])
                self.rule('derived-to-base -> embedded base sub-object')
                return ('addr', b, tt)
            if ck in ('NoOp', 'LValueToRValue'):
                if ck == 'LValueToRValue':
                    lv = self.lvalue(sub)
                    return lv
                return self.ptr_expr(sub)
        if n['kind'] == 'UnaryOperator' and n['opcode'] == '&':
            lv = self.lvalue(self.inner(n)[0])
            return ('addr', lv, ('ptr', lv[-1]))
        self.err(n, 'pointer expression')

    def const_index(self, n):
        v = self.const_int(n)
        if v is None:
            self.err(n, 'Eigen coefficient index is not a compile-time constant')
        return v

    def const_int(self, n):
        n = self.strip(n)
        if n['kind'] == 'IntegerLiteral':
            return int(n['value'])
        if n['kind'] == 'MemberExpr' and n.get('name') in (self.prog.options.get('const_members') or {}) and self.inner(n) and self.strip(self.inner(n)[0])['kind'] == 'CXXThisExpr':
            # bounded stand-in: the spec fixes the value of a size member for this run (the harness state holds the same value)
            self.rule('size member %s read as the constant the spec binds it to (bounded stand-in)' % n['name'])
            return int(self.prog.options['const_members'][n['name']])
        if n['kind'] == 'DeclRefExpr' and n.get('referencedDecl', {}).get('id') in self.consts:
            return self.consts[n['referencedDecl']['id']]
        if n['kind'] == 'DeclRefExpr' and n.get('referencedDecl', {}).get('name') in (self.prog.options.get('const_names') or {}):
            return int(self.prog.options['const_names'][n['referencedDecl']['name']])
        if n['kind'] == 'DeclRefExpr' and n.get('referencedDecl', {}).get('kind') == 'VarDecl' and n['referencedDecl'].get('id') not in self.vars:
            v = self.unit.static_const(n['referencedDecl']['id'])
            if isinstance(v, int):
                return v
        if n['kind'] in ('ImplicitCastExpr', 'CXXStaticCastExpr', 'CStyleCastExpr', 'CXXFunctionalCastExpr'):
            return self.const_int(self.inner(n)[0])
        if n['kind'] == 'DeclRefExpr' and n['referencedDecl'].get('kind') == 'EnumConstantDecl':
            return self.enum_value(n)
        if n['kind'] == 'BinaryOperator':
            a, b = [self.const_int(x) for x in self.inner(n)]
            if a is None or b is None:
                return None
            return {'+': a + b, '-': a - b, '*': a * b}.get(n['opcode'])
        return None

    def enum_value(self, n):
        nm = n['referencedDecl']['name']
        for en, consts in self.prog.enums.items():
            if nm in consts:
                return consts[nm]
        self.err(n, 'unknown enum constant ' + nm)

    def is_eigen_node(self, n):
        t = node_type(n)
        pt = parse_type(t)[0]
        if pt[0] in ('vector', 'list', 'map', 'optional', 'queue', 'struct', 'ptr') or is_scalar(pt):
            return False
        return 'Eigen::' in t and not t.endswith('::Scalar') and 'CoeffReturnType' not in t

    # -- scalar expressions -------------------------------------------------------------
    def expr(self, n, want_value=True):
        n = self.strip(n)
        k = n['kind']
        t = self.T(n) if 'type' in n else ('void',)
        if k == 'IntegerLiteral':
            return ('const', t, int(n['value']))
        if k == 'FloatingLiteral':
            return ('const', t, n['value'])
        if k == 'CXXBoolLiteralExpr':
            return ('const', ('bool',), 1 if n['value'] else 0)
        if k == 'StringLiteral':
            self.rule('string literal -> interned handle')
            return ('const', ('string',), self.prog.intern_string(n['value']))
        if k == 'CXXNullPtrLiteralExpr':
            return ('const', t, 0)
        if k == 'DeclRefExpr' and n.get('referencedDecl', {}).get('id') in self.consts:
            return ('const', t if t[0] == 'int' else ('int', 32, True), self.consts[n['referencedDecl']['id']])
        if k == 'DeclRefExpr':
            rk = n['referencedDecl'].get('kind')
            if rk == 'EnumConstantDecl':
                return ('const', ('int', 32, True), self.enum_value(n))
            return self.lvalue(n)
        if k in ('MemberExpr',):
            return self.lvalue(n)
        if k == 'ImplicitCastExpr' or k in ('CXXStaticCastExpr', 'CStyleCastExpr', 'CXXFunctionalCastExpr'):
            ck = n.get('castKind')
            sub = self.inner(n)[0]
            if ck in ('LValueToRValue', 'NoOp'):
                st = self.T(sub)
                if st[0] == 'atomic':
                    self.rule('std::atomic load -> plain read (atomicity assumed)')
                return self.expr(sub)
            if ck in ('IntegralCast', 'IntegralToFloating', 'FloatingToIntegral', 'FloatingCast', 'IntegralToBoolean', 'FloatingToBoolean', 'BooleanToSignedIntegral'):
                a = self.expr(sub)
                ft = self.T(sub)
                if ft[0] == 'enum':
                    ft = ('int', 32, True)
                tt = t if t[0] != 'enum' else ('int', 32, True)
                if ft == tt:
                    return a
                return ('cast', a, ft, tt)
            if ck in ('ConstructorConversion', 'UserDefinedConversion', 'ArrayToPointerDecay'):
                return self.expr(sub)
            if ck == 'ToVoid':
                return None
            if ck in ('DerivedToBase', 'UncheckedDerivedToBase'):
                return self.lvalue(n)
            self.err(n, 'cast kind %s' % ck)
        if k == 'UnaryOperator':
            op = n['opcode']
            sub = self.inner(n)[0]
            if op in ('-', '!', '~', '+'):
                a = self.expr(sub)
                return ('un', op, a, t)
            if op == '*':
                return self.lvalue(n)
            if op == '&':
                return self.ptr_expr(n)
            if op in ('++', '--'):
                # value-producing inc/dec: only prefix form supported inside expressions
                lv = self.lvalue(self.strip(sub))
                if n.get('isPostfix'):
                    nm = self.tmp(t)
                    self.pre.append(('decl', nm, lv[-1], lv))
                    self.pre.append(('assign', lv, ('bin', op[0], lv, ('const', lv[-1], 1), lv[-1])))
                    return ('var', nm, lv[-1])
                self.pre.append(('assign', lv, ('bin', op[0], lv, ('const', lv[-1], 1), lv[-1])))
                return lv
            self.err(n, 'unary ' + op)
        if k == 'BinaryOperator':
            op = n['opcode']
            a, b = self.inner(n)
            if op == '=':
                st = self.expr_stmt(n)
                self.pre += st
                return self.lvalue(self.strip(a))
            if op == ',':
                self.pre += self.expr_stmt(a)
                return self.expr(b)
            ea = self.expr(a)
            if op in ('&&', '||'):
                save = self.pre
                self.pre = []
                eb = self.expr(b)
                if self.pre:
                    self.err(n, 'side effects on the right of a short-circuit operator')
                self.pre = save
            else:
                eb = self.expr(b)
            return ('bin', op, ea, eb, t)
        if k == 'ConditionalOperator':
            c, a, b = self.inner(n)
            ec = self.expr(c)
            save = self.pre; self.pre = []
            ea, eb = self.expr(a), self.expr(b)
            if self.pre:
                self.err(n, 'side effects inside ?:')
            self.pre = save
            return ('cond', ec, ea, eb, t)
        if k == 'CXXOperatorCallExpr':
            return self.op_call(n, t)
        if k == 'CXXMemberCallExpr':
            return self.member_call(n, t, want_value)
        if k == 'CallExpr':
            return self.free_call(n, t)
        if k in ('CXXConstructExpr', 'CXXTemporaryObjectExpr'):
            args = self.inner(n)
            if t[0] == 'string':
                if not args:
                    return ('const', ('string',), 0)
                if len(args) >= 1:
                    return self.expr(args[0])
            if is_scalar(t) and len(args) == 1:
                return self.expr(args[0])
            if t[0] == 'duration' and len(args) == 1:
                return self.expr(args[0])
            if t[0] == 'optional' and len(args) == 1 and self.T(args[0]) == t:
                self.rule('std::optional: copy/move construction = copy of flag and payload')
                return self.expr(args[0])
            if t[0] == 'optional' and (not args or (len(args) == 1 and 'nullopt_t' in node_type(self.strip(args[0])))):
                self.rule('std::optional: construction from std::nullopt = disengaged')
                nm = self.tmp(t)
                self.pre.append(('decl', nm, t, None))
                self.pre.append(('assign', ('field', ('var', nm, t), 'has', ('bool',)), ('const', ('bool',), 0)))
                return ('var', nm, t)
            self.err(n, 'construct expression of %r in scalar context' % (t,))
        if k == 'CXXScalarValueInitExpr' or k == 'ImplicitValueInitExpr':
            return ('const', t, 0)
        if k == 'CXXDefaultArgExpr':
            if self.inner(n):
                return self.expr(self.inner(n)[0])
            if is_scalar(t):
                nm = self.tmp(t)
                self.pre.append(('decl', nm, t, ('unspecified', t)))
                self.rule('default argument whose value is not visible in the AST: left unspecified (any value)')
                return ('var', nm, t)
            self.err(n, 'default arg without expr')
        if k == 'CXXThisExpr':
            return ('var', 'self', ('ptr', self.self_type))
        self.err(n, 'unsupported expression')

    def aggregate_value(self, n, t):
        """a struct/Eigen value usable as an rvalue: an lvalue, or a temporary built by its constructor"""
        n0 = self.strip(n)
        if n0['kind'] == 'CXXDefaultArgExpr' and not self.inner(n0):
            nm = self.tmp(t)
            self.pre.append(('decl', nm, t, ('unspecified', t)))
            self.rule('default argument whose value is not visible in the AST: left unspecified (any value)')
            return ('var', nm, t)
        while n0['kind'] in ('ImplicitCastExpr', 'CXXFunctionalCastExpr') and n0.get('castKind') in ('NoOp', 'ConstructorConversion'):
            n0 = self.strip(self.inner(n0)[0])
        if n0['kind'] == 'InitListExpr' and t[0] == 'struct':
            self.prog.need_type(t)
            rec = self.prog.records.get(t[1])
            inits = self.inner(n0)
            if rec is None or rec.get('bases') or len(inits) > len(rec['fields']):
                self.err(n0, 'aggregate initialisation of %r' % (t,))
            nm = self.tmp(t)
            self.pre.append(('decl', nm, t, None))
            for k, (fname, ft) in enumerate(rec['fields']):
                if not is_scalar(ft):
                    self.err(n0, 'aggregate initialisation with non-scalar member %s' % fname)
                v = self.expr(inits[k]) if k < len(inits) else ('const', ft, 0)
                self.pre.append(('assign', ('field', ('var', nm, t), fname, ft), v))
            self.rule('aggregate initialisation {a, b, ...}: one assignment per member in declaration order')
            return ('var', nm, t)
        if n0['kind'] in ('CXXConstructExpr', 'CXXTemporaryObjectExpr'):
            args = self.inner(n0)
            if len(args) == 1 and self.T(args[0]) == t and n0.get('ctorType', {}).get('qualType', '').count(t[1] if t[0] == 'struct' else '~') >= 1 and self.strip(args[0])['kind'] not in ('CXXConstructExpr', 'CXXTemporaryObjectExpr'):
                try:
                    return self.lvalue(args[0])      # copy construction from an lvalue
                except ExtractError:
                    pass
            if len(args) == 1 and self.T(args[0]) == t:
                return self.aggregate_value(args[0], t)
            nm = self.tmp(t)
            self.pre.append(('decl', nm, t, None))
            self.pre += self.construct_into(('var', nm, t), t, n0)
            return ('var', nm, t)
        if t[0] == 'eig':
            ev = self.eig(n0)
            if ev.lv is not None:
                return ev.lv
            nm = self.tmp(t)
            self.pre.append(('decl', nm, t, None))
            self.pre += self.eig_store(('var', nm, t), t, ev)
            return ('var', nm, t)
        if n0['kind'] in ('CallExpr', 'CXXMemberCallExpr', 'CXXOperatorCallExpr') and t[0] == 'struct':
            e = self.expr(n0)
            if e[0] == 'call' and e[-1] == t:
                nm = self.tmp(t)
                self.pre.append(('decl', nm, t, e))
                self.rule('struct returned by a call: held in a temporary')
                return ('var', nm, t)
            if e[0] == 'call' and e[-1][0] == 'ptr':
                return ('deref', e, t)
            return e
        return self.lvalue(n0)

    def struct_value(self, n):
        n0 = self.strip(n)
        try:
            return self.lvalue(n0)
        except ExtractError:
            return self.expr(n0)

    # -- operator calls -----------------------------------------------------------------
    def op_call(self, n, t):
        op = self.opname(n)
        args = self.inner(n)[1:]
        a0t = self.T(args[0])
        if op in ('[]', '()') and (self.is_eigen_node(args[0])):
            ev = self.eig(args[0])
            if len(args) == 2 and self.const_int(args[1]) is None and ev.lv is not None and (ev.cols == 1 or ev.rows == 1):
                self.rule('eigen: coefficient access with a run-time index (bounds checked)')
                return ('elemx', ev.lv, self.expr(args[1]), ev.st)
            idx = [self.const_index(a) for a in args[1:]]
            self.rule('eigen: coefficient access operator[]/() with constant index')
            if len(idx) == 1:
                if ev.cols == 1:
                    return ev.get(idx[0], 0)
                if ev.rows == 1:
                    return ev.get(0, idx[0])
                return ev.get(idx[0] // ev.cols, idx[0] % ev.cols)
            return ev.get(idx[0], idx[1])
        if op == '[]' and a0t[0] in ('vector', 'map'):
            return self.lvalue(n)
        if op in ('==', '!=') and a0t[0] == 'iter':
            c1, i1 = self.iter_of(args[0])
            c2, i2 = self.iter_of(args[1])
            self.rule('iterator comparison -> index comparison')
            return ('bin', op, i1, i2, ('bool',))
        if op == '*' and len(args) == 1 and a0t[0] == 'iter':
            return self.lvalue(n)
        if op == '*' and len(args) == 1 and a0t[0] == 'optional':
            return self.lvalue(n)
        if a0t[0] == 'string' or (len(args) > 1 and self.T(args[1])[0] == 'string'):
            if op == '+':
                self.rule('std::string operator+ -> uninterpreted str_concat')
                return ('call', 'str_concat', [self.expr(args[0]), self.expr(args[1])], ('string',))
            if op in ('==', '!='):
                e = ('bin', op, self.expr(args[0]), self.expr(args[1]), ('bool',))
                return e
        if a0t[0] == 'duration' or (len(args) > 1 and self.T(args[1])[0] == 'duration'):
            if op in ('-', '+', '<', '>', '<=', '>=', '==', '!='):
                self.rule('std::chrono::duration arithmetic -> 64-bit integer nanoseconds')
                rt = ('bool',) if op in CMP_OPS else ('int', 64, True)
                return ('bin', op, self.expr(args[0]), self.expr(args[1]), rt)
        if a0t[0] == 'atomic' and op == '=':
            self.rule('std::atomic store -> plain write (atomicity assumed)')
            lv = self.lvalue(args[0])
            self.pre.append(('assign', lv, self.expr(args[1])))
            return lv
        if op == '=':
            self.pre += self.expr_stmt(n)
            return self.lvalue(self.strip(args[0]))
        # repository-defined operators (free or member)
        callee = self.callee_decl(n)
        return self.repo_call(n, callee, args, t)

    # -- member calls -------------------------------------------------------------------
    def member_call(self, n, t, want_value=True):
        me = self.callee_decl(n)
        args = self.inner(n)[1:]
        if me['kind'] != 'MemberExpr':
            self.err(n, 'member call callee')
        name = me['name']
        obj = self.inner(me)[0]
        ot = self.T(obj)
        if self.is_eigen_node(obj) or ot[0] == 'eig':
            return self.eig_scalar_method(n, name, obj, args, t)
        if ot[0] == 'map':
            m = self.lvalue(obj)
            if name == 'insert' and len(args) == 2:
                c1, i1 = self.iter_of(args[0]); c2, i2 = self.iter_of(args[1])
                self.rule('std::map insert(first,last) -> model function (call recorded, semantics assumed)')
                fn = 'stdmap_%s_%s_insert_range' % (type_tag(ot[1]), type_tag(ot[2]))
                self.pre.append(('expr', ('call', fn, [('addr', m, ('ptr', ot)), ('addr', c1, ('ptr', ot)), i1, i2], ('void',))))
                return None
            if name == 'size':
                return ('field', m, 'size', ('int', 64, False))
            self.err(n, 'std::map::%s' % name)
        if ot[0] == 'list' and name == 'insert' and len(args) == 3:
            v = self.lvalue(obj)
            c0, i0 = self.iter_of(args[0]); c1, i1 = self.iter_of(args[1]); c2, i2 = self.iter_of(args[2])
            self.rule('std::list insert(pos,first,last) -> model function stdlist_*_insert_range')
            fn = 'stdlist_%s_insert_range' % type_tag(ot[1])
            self.pre.append(('expr', ('call', fn, [('addr', v, ('ptr', ot)), i0, ('addr', c1, ('ptr', ot)), i1, i2], ('void',))))
            return None
        if ot[0] in ('vector', 'list') or (ot[0] == 'ptr' and ot[1][0] == 'vector'):
            v = self.lvalue(obj)
            u64 = ('int', 64, False)
            if name == 'size':
                self.rule('std::vector size() -> size field')
                return ('field', v, 'size', u64)
            if name == 'empty':
                return ('bin', '==', ('field', v, 'size', u64), ('const', u64, 0), ('bool',))
            if name == 'push_back':
                self.rule('std::vector push_back -> store at data[size], size+1 (capacity assumed, see models)')
                if is_scalar(ot[1]) or ot[1][0] == 'string':
                    val = self.expr(args[0])
                else:
                    val = self.aggregate_value(args[0], ot[1])
                self.pre.append(('vpush', v, val, ot[1]))
                return None
            if name == 'clear':
                self.rule('std::vector clear -> size = 0')
                self.pre.append(('assign', ('field', v, 'size', u64), ('const', u64, 0)))
                return None
            if name == 'capacity':
                self.rule('std::vector capacity() -> model call stdvec_capacity(size): some value not below the size')
                return ('call', 'stdvec_capacity', [('field', v, 'size', u64)], u64)
            if name == 'reserve':
                self.rule('std::vector reserve -> no observable effect (capacity is ghost)')
                self.expr(args[0])
                return None
            if name == 'resize':
                self.rule('std::vector resize -> model call stdvec_resize')
                self.pre.append(('expr', ('call', 'stdvec_%s_resize' % type_tag(ot[1]), [('addr', v, ('ptr', ot))] + [self.expr(a) for a in args], ('void',))))
                return None
            if name in ('front', 'back'):
                return self.lvalue(n)
            self.err(n, 'std::vector::%s' % name)
        if ot[0] == 'queue':
            q = self.lvalue(obj)
            u64 = ('int', 64, False)
            if name == 'size':
                self.rule('std::queue size() -> size field')
                return ('field', q, 'size', u64)
            if name == 'empty':
                return ('bin', '==', ('field', q, 'size', u64), ('const', u64, 0), ('bool',))
            if name == 'push':
                self.rule('std::queue push -> ring model store at (head+size) mod CAP')
                self.pre.append(('qpush', q, self.expr(args[0]), ot[1]))
                return None
            if name == 'pop':
                self.rule('std::queue pop -> ring model head+1, size-1')
                self.pre.append(('qpop', q))
                return None
            if name == 'front':
                self.rule('std::queue front -> ring model data[head] with non-empty assertion')
                return ('qfront', q, ot[1])
            self.err(n, 'std::queue::%s' % name)
        if ot[0] == 'optional':
            v = self.lvalue(obj)
            if name == 'has_value':
                return ('field', v, 'has', ('bool',))
            if name == 'value':
                return ('field', v, 'v', ot[1])
            if name == 'reset':
                self.pre.append(('assign', ('field', v, 'has', ('bool',)), ('const', ('bool',), 0)))
                return None
        if ot[0] == 'atomic':
            v = self.lvalue(obj)
            if name == 'load':
                self.rule('std::atomic load -> plain read (atomicity assumed)')
                return v
            if name == 'store':
                self.rule('std::atomic store -> plain write (atomicity assumed)')
                self.pre.append(('assign', v, self.expr(args[0])))
                return None
            if name.startswith('operator'):
                self.rule('std::atomic load -> plain read (atomicity assumed)')
                return v
        if ot[0] == 'duration':
            if name == 'count':
                self.rule('std::chrono::duration count() -> the 64-bit nanosecond value')
                return self.expr(obj)
        if ot[0] == 'mutex':
            self.err(n, 'explicit mutex call')
        return self.repo_call(n, me, args, t, obj=obj)

    def eig_scalar_method(self, n, name, obj, args, t):
        ev = self.eig(obj)
        st = ev.st
        cells = [(i, j) for i in range(ev.rows) for j in range(ev.cols)]

        def fold(op, items):
            acc = items[0]
            for x in items[1:]:
                acc = ('bin', op, acc, x, st)
            return acc
        if name == 'dot':
            o = self.eig(args[0])
            self.rule('eigen: dot expanded to sum of products (left fold)')
            if ev.rows * ev.cols != o.rows * o.cols or min(ev.rows, ev.cols) != 1 or min(o.rows, o.cols) != 1:
                self.err(n, 'dot of non-vectors or of vectors of different length')
            # operands may have different orientations (row.dot(col)): pair the k-th coefficients
            ocell = lambda k: o.get(k, 0) if o.cols == 1 else o.get(0, k)
            return fold('+', [('bin', '*', ev.get(i, j), ocell(max(i, j)), st) for i, j in cells])
        if name == 'isIdentity':
            # Eigen's fuzzy test (within dummy_precision) read in exact arithmetic: every diagonal coefficient 1, every other 0
            self.rule('eigen: isIdentity() read as the exact test (exact arithmetic)')
            acc = None
            for (i, j) in cells:
                tst = ('bin', '==', ev.get(i, j), ('const', st, 1 if i == j else 0), ('bool',))
                acc = tst if acc is None else ('bin', '&&', acc, tst, ('bool',))
            return acc
        if name in ('rows', 'cols', 'size') and not args:
            self.rule('eigen: %s() of a fixed-size (or size-bound) object is a constant' % name)
            v = ev.rows if name == 'rows' else (ev.cols if name == 'cols' else ev.rows * ev.cols)
            return ('const', t if is_scalar(t) else ('int', 64, True), v)
        if name == 'trace' and ev.rows == ev.cols:
            self.rule('eigen: trace expanded (left fold)')
            return fold('+', [ev.get(i, i) for i in range(ev.rows)])
        if name == 'sum':
            self.rule('eigen: sum expanded (left fold)')
            return fold('+', [ev.get(i, j) for i, j in cells])
        if name == 'prod' and st == ('bool',):
            self.rule('eigen: prod of a boolean array = conjunction')
            return fold('&&', [ev.get(i, j) for i, j in cells])
        if name == 'prod':
            self.rule('eigen: prod expanded (left fold)')
            return fold('*', [ev.get(i, j) for i, j in cells])
        if name == 'squaredNorm':
            self.rule('eigen: squaredNorm expanded')
            return fold('+', [('bin', '*', ev.get(i, j), ev.get(i, j), st) for i, j in cells])
        if name == 'norm':
            self.rule('eigen: norm = sqrt(squaredNorm)')
            return ('call', 'sqrt', [fold('+', [('bin', '*', ev.get(i, j), ev.get(i, j), st) for i, j in cells])], st)
        if name in ('maxCoeff', 'minCoeff') and not args:
            self.rule('eigen: max/minCoeff expanded')
            acc = ev.get(*cells[0])
            for c in cells[1:]:
                x = ev.get(*c)
                acc = ('cond', ('bin', '>' if name == 'maxCoeff' else '<', x, acc, ('bool',)), x, acc, st)
            return acc
        if name == 'all':
            return fold('&&', [ev.get(i, j) for i, j in cells])
        if name == 'any':
            return fold('||', [ev.get(i, j) for i, j in cells])
        if name in ('x', 'y', 'z', 'w'):
            k = 'xyzw'.index(name)
            return ev.get(k, 0) if ev.cols == 1 else ev.get(0, k)
        if name in ('coeff', 'coeffRef', 'operator()', 'operator[]'):
            idx = [self.const_index(a) for a in args]
            return ev.get(idx[0], idx[1]) if len(idx) == 2 else (ev.get(idx[0], 0) if ev.cols == 1 else ev.get(0, idx[0]))
        if name == 'determinant' and ev.rows == ev.cols and ev.rows in (2, 3):
            self.rule('eigen: determinant expanded (cofactor formula)')
            g = ev.get

            def m(a, b):
                return ('bin', '*', a, b, st)
            if ev.rows == 2:
                return ('bin', '-', m(g(0, 0), g(1, 1)), m(g(0, 1), g(1, 0)), st)
            t1 = m(g(0, 0), ('bin', '-', m(g(1, 1), g(2, 2)), m(g(1, 2), g(2, 1)), st))
            t2 = m(g(0, 1), ('bin', '-', m(g(1, 0), g(2, 2)), m(g(1, 2), g(2, 0)), st))
            t3 = m(g(0, 2), ('bin', '-', m(g(1, 0), g(2, 1)), m(g(1, 1), g(2, 0)), st))
            return ('bin', '+', ('bin', '-', t1, t2, st), t3, st)
        self.err(n, 'Eigen scalar method %s' % name)

    # -- free calls ---------------------------------------------------------------------
    LIBM = {'sin', 'cos', 'tan', 'atan', 'atan2', 'asin', 'acos', 'sqrt', 'exp', 'log', 'pow', 'fmod', 'floor', 'ceil', 'fabs', 'abs', 'trunc', 'round', 'copysign', 'hypot'}

    def free_call(self, n, t):
        callee = self.callee_decl(n)
        args = self.inner(n)[1:]
        name = callee.get('referencedDecl', {}).get('name', '') if callee['kind'] == 'DeclRefExpr' else ''
        if name in self.LIBM and not self.is_repo_decl(callee):
            a = [self.expr(x) for x in args]
            self.rule('libm call kept as call: ' + name)
            nm = 'fabs' if name == 'abs' and t[0] == 'float' else name
            return ('call', nm, a, t)
        if name in ('isfinite', 'isnan', 'isinf'):
            return ('call', name, [self.expr(x) for x in args], ('bool',))
        if name in ('max', 'min', 'lowest', 'epsilon', 'infinity') and len(args) == 0 and callee['kind'] == 'DeclRefExpr':
            self.rule('std::numeric_limits<T>::%s() -> constant' % name)
            return ('call', 'numeric_limits_%s_%s' % (scalar_tag(t), name), [], t)
        if name in ('min', 'max') and len(args) == 2 and not self.is_repo_decl(callee):
            a, b = [self.expr(x) for x in args]
            self.rule('std::min/max -> conditional with the standard tie rule')
            if name == 'min':
                return ('cond', ('bin', '<', b, a, ('bool',)), b, a, t)
            return ('cond', ('bin', '<', a, b, ('bool',)), b, a, t)
        if name == 'clamp' and len(args) == 3 and not self.is_repo_decl(callee) and is_scalar(t):
            v, lo, hi = [self.expr(x) for x in args]
            self.rule('std::clamp(v, lo, hi) -> (v < lo) ? lo : (hi < v) ? hi : v')
            return ('cond', ('bin', '<', v, lo, ('bool',)), lo, ('cond', ('bin', '<', hi, v, ('bool',)), hi, v, t), t)
        if name == 'dummy_precision' and not args and not self.is_repo_decl(callee):
            self.rule('Eigen::NumTraits<T>::dummy_precision() -> 1e-12 (double) / 1e-5 (float)')
            return ('const', t, '1e-12' if t == ('float', 64) else '1e-5')
        if name in ('move', 'forward'):
            return self.expr(args[0]) if is_scalar(t) or t[0] == 'string' else self.lvalue(args[0])
        if name == 'exchange' and len(args) == 2 and not self.is_repo_decl(callee):
            self.rule('std::exchange(obj, v): old = obj; obj = v; result old')
            lv = self.lvalue(args[0])
            nm = self.tmp(t)
            self.pre.append(('decl', nm, t, lv))
            if t[0] == 'optional' and 'nullopt_t' in node_type(self.strip(args[1])):
                self.pre.append(('assign', ('field', lv, 'has', ('bool',)), ('const', ('bool',), 0)))
            elif is_scalar(t):
                self.pre.append(('assign', lv, self.expr(args[1])))
            else:
                self.err(n, 'std::exchange on %r' % (t,))
            return ('var', nm, t)
        if name == 'copy' and len(args) == 3:
            # std::copy(X.data(), X.data() + n, Y.data()) on fixed-size Eigen objects: the first n coefficients in STORAGE order
            # (Eigen's default is column-major unless the type says RowMajor)
            def data_obj(a):
                a = self.strip(a)
                while a['kind'] in ('ImplicitCastExpr', 'MaterializeTemporaryExpr') and self.inner(a):
                    a = self.strip(self.inner(a)[0])
                if a['kind'] == 'CXXMemberCallExpr' and self.callee_decl(a).get('name') == 'data':
                    return self.inner(self.callee_decl(a))[0]
                return None
            src = data_obj(args[0])
            dst = data_obj(args[2])
            a1 = self.strip(args[1])
            while a1['kind'] in ('ImplicitCastExpr', 'MaterializeTemporaryExpr') and self.inner(a1):
                a1 = self.strip(self.inner(a1)[0])
            cnt = None
            if a1['kind'] == 'BinaryOperator' and a1.get('opcode') == '+':
                l, r = self.inner(a1)
                if data_obj(l) is not None:
                    cnt = self.const_int(r)
            if src is not None and dst is not None and cnt is not None:
                S_, D_ = self.eig(src), self.eig(dst)
                if D_.lv is None or cnt > S_.rows * S_.cols or cnt > D_.rows * D_.cols:
                    self.err(n, 'std::copy on Eigen data: shape')

                def storage(ev, node, k):
                    q = self.desugar(node) + node_type(node)
                    m = re.search(r'Matrix<[^,]+,\s*-?\d+,\s*-?\d+,\s*(\d+)', q)
                    rowmajor = bool(m and int(m.group(1)) & 1) and ev.rows > 1 and ev.cols > 1
                    return (k // ev.cols, k % ev.cols) if rowmajor else (k % ev.rows, k // ev.rows)
                out, names = [], []
                for k in range(cnt):
                    i, j = storage(S_, src, k)
                    nm = self.tmp(S_.st); names.append(nm)
                    out.append(('decl', nm, S_.st, S_.get(i, j)))
                for k, nm in enumerate(names):
                    i, j = storage(D_, dst, k)
                    out.append(('assign', ('elem', D_.lv, i * D_.cols + j, D_.st), ('var', nm, D_.st)))
                self.pre += out
                self.rule('std::copy over Eigen .data(): the first n coefficients in storage order (column-major unless RowMajor)')
                return None
            self.err(n, 'std::copy: only X.data(), X.data() + const, Y.data() on fixed-size Eigen objects has a rule')
        if name == 'to_string':
            self.rule('std::to_string -> uninterpreted str_of_*')
            a = self.expr(args[0])
            return ('call', 'str_of_' + type_tag(self.T(args[0])), [a], ('string',))
        if name == 'zero' and t[0] == 'duration':
            self.rule('std::chrono::duration::zero() -> 0 ns')
            return ('const', ('int', 64, True), 0)
        if name == 'quiet_NaN':
            return ('call', 'quiet_nan', [], t)
        if name in ('max', 'min', 'lowest', 'epsilon') and callee['kind'] == 'DeclRefExpr':
            # numeric_limits<T>::xxx()
            q = callee.get('referencedDecl', {}).get('type', {}).get('qualType', '')
            return ('call', 'numeric_limits_%s_%s' % (scalar_tag(t), name), [], t)
        return self.repo_call(n, callee, args, t)

    def is_repo_decl(self, callee):
        # repo functions are those whose definition we can find under romea::
        rd = callee.get('referencedDecl', {})
        return rd.get('id') in self.unit.repo_func_ids if hasattr(self.unit, 'repo_func_ids') else False

    def repo_call(self, n, callee, args, t, obj=None):
        rd = callee.get('referencedDecl') or {}
        name = callee.get('name') or rd.get('name')
        if name == 'toStringInfoValue':
            self.rule('toStringInfoValue (ostringstream << value) -> uninterpreted str_of_<type>')
            return ('call', 'str_of_' + type_tag(self.T(args[0])), [self.expr(args[0])], ('string',))
        mid = callee.get('referencedMemberDecl') or rd.get('id')
        target = self.prog.resolve_call(self, mid, name, obj, n)
        if target is None:
            self.err(n, 'call to %s has no extraction rule' % name)
        cname, ret, pkinds, ret_ref = target
        self.calls.add(cname)
        cargs = []
        if obj is not None:
            o = self.strip(obj)
            if o['kind'] == 'CXXThisExpr' or (o['kind'] == 'ImplicitCastExpr' and node_type(o).endswith('*')):
                cargs.append(self.ptr_expr(o))
            else:
                lv = self.lvalue(o)
                cargs.append(('addr', lv, ('ptr', lv[-1])))
        for a, pk in zip(args, pkinds):
            if pk == 'value':
                cargs.append(self.expr(a) if is_scalar(self.T(a)) or self.T(a)[0] == 'string' else self.struct_value(a))
            else:
                cargs.append(self.arg(a))
        self.rule('call to repository function kept as call')
        e = ('call', cname, cargs, ret)
        if ret[0] == 'eig':
            nm = self.tmp(ret)
            self.pre.append(('decl', nm, ret, e))
            return ('var', nm, ret)
        if ret_ref and is_scalar(ret[1]) and t[0] != 'ptr':
            return ('deref', e, ret[1])
        return e

    # -- Eigen-valued expressions -------------------------------------------------------
    def qkind(self, n):
        q = node_type(self.strip(n))
        return 'aa' if 'AngleAxis<' in q or 'AngleAxisd' in q or 'AngleAxisf' in q else ('quat' if 'Quaternion<' in q or 'Quaterniond' in q or 'Quaternionf' in q else None)

    def quat_to_rot(self, qv):
        """Eigen::QuaternionBase::toRotationMatrix() as Eigen writes it (assumed contract of the dependency)"""
        st = qv.st
        x, y, z, w = (qv.get(i, 0) for i in range(4))
        two = ('const', st, 2)
        m = lambda a, b: ('bin', '*', a, b, st)
        ad = lambda a, b: ('bin', '+', a, b, st)
        sb = lambda a, b: ('bin', '-', a, b, st)
        one = ('const', st, 1)
        tx, ty, tz = m(two, x), m(two, y), m(two, z)
        twx, twy, twz = m(tx, w), m(ty, w), m(tz, w)
        txx, txy, txz = m(tx, x), m(ty, x), m(tz, x)
        tyy, tyz, tzz = m(ty, y), m(tz, y), m(tz, z)
        R = [[sb(one, ad(tyy, tzz)), sb(txy, twz), ad(txz, twy)],
             [ad(txy, twz), sb(one, ad(txx, tzz)), sb(tyz, twx)],
             [sb(txz, twy), ad(tyz, twx), sb(one, ad(txx, tyy))]]
        self.rule('Eigen::Quaternion toRotationMatrix() / Matrix3(quaternion) -> Eigen\'s formula (assumed contract)')
        return EigVal(st, 3, 3, lambda i, j: R[i][j])

    def eig_quat(self, n):
        """AngleAxis / Quaternion valued expressions: AngleAxis(a, axis) is carried as the quaternion it converts to,
        products are Hamilton products (Eigen's operator* for Quaternion*Quaternion, AngleAxis*AngleAxis, Quaternion*AngleAxis)"""
        k = n['kind']
        if k in ('CXXConstructExpr', 'CXXTemporaryObjectExpr', 'CXXFunctionalCastExpr') and self.qkind(n) == 'aa':
            args = [a for a in self.inner(n) if self.strip(a)['kind'] != 'CXXDefaultArgExpr']
            if len(args) == 2 and is_scalar(self.T(args[0])):
                ang = self.expr(args[0]); ax = self.eig(args[1])
                st = ax.st
                half = ('bin', '*', ('const', st, '0.5'), ang, st)
                sn, cs = ('call', 'sin', [half], st), ('call', 'cos', [half], st)
                self.rule('Eigen::AngleAxis(angle, axis) -> quaternion (sin(angle/2) axis, cos(angle/2)) (assumed contract of the conversion)')
                return EigVal(st, 4, 1, lambda i, j: ('bin', '*', sn, ax.get(i, 0), st) if i < 3 else cs)
        if k == 'CXXOperatorCallExpr' and self.opname(n) == '*':
            args = self.inner(n)[1:]
            if len(args) == 2 and self.qkind(args[0]) and self.qkind(args[1]):
                a, b = self.eig(args[0]), self.eig(args[1])
                st = a.st
                ax, ay, az, aw = (a.get(i, 0) for i in range(4))
                bx, by, bz, bw = (b.get(i, 0) for i in range(4))
                m = lambda u, v: ('bin', '*', u, v, st)
                ad = lambda u, v: ('bin', '+', u, v, st)
                sb = lambda u, v: ('bin', '-', u, v, st)
                prod = [sb(ad(ad(m(aw, bx), m(ax, bw)), m(ay, bz)), m(az, by)),
                        sb(ad(ad(m(aw, by), m(ay, bw)), m(az, bx)), m(ax, bz)),
                        sb(ad(ad(m(aw, bz), m(az, bw)), m(ax, by)), m(ay, bx)),
                        sb(sb(sb(m(aw, bw), m(ax, bx)), m(ay, by)), m(az, bz))]
                self.rule('Eigen quaternion product (Hamilton product, also for AngleAxis operands)')
                return EigVal(st, 4, 1, lambda i, j: prod[i])
        return None

    def eig(self, n):
        n = self.strip(n)
        k = n['kind']
        t = self.T(n)
        if self.qkind(n):
            r = self.eig_quat(n)
            if r is not None:
                return r
        if k in ('CXXConstructExpr', 'CXXTemporaryObjectExpr', 'CXXFunctionalCastExpr') and t[0] == 'eig' and t[2] == 3 and t[3] == 3:
            qa = [a for a in self.inner(n) if self.strip(a)['kind'] != 'CXXDefaultArgExpr']
            if len(qa) == 1 and self.qkind(qa[0]) == 'quat':
                return self.quat_to_rot(self.eig(qa[0]))
        if k == 'DeclRefExpr' and n.get('referencedDecl', {}).get('id') in self.lazy_eig:
            return self.eig(self.lazy_eig[n['referencedDecl']['id']])
        if k in ('DeclRefExpr', 'MemberExpr'):
            lv = self.lvalue(n)
            if t[0] != 'eig' and isinstance(lv[-1], tuple) and lv[-1][0] == 'eig':
                t = lv[-1]          # a dynamic-size local declared with the fixed size of its initialiser / a member with a size bound by the spec
            return self.eig_of_lv(lv, t)
        if k == 'ImplicitCastExpr':
            ck = n.get('castKind')
            if ck in ('NoOp', 'DerivedToBase', 'UncheckedDerivedToBase', 'LValueToRValue', 'ConstructorConversion', 'UserDefinedConversion'):
                return self.eig(self.inner(n)[0])
            self.err(n, 'Eigen cast ' + str(ck))
        if k in ('CXXConstructExpr', 'CXXTemporaryObjectExpr', 'CXXFunctionalCastExpr', 'CXXStaticCastExpr'):
            args = [a for a in self.inner(n) if self.strip(a)['kind'] != 'CXXDefaultArgExpr']
            if len(args) == 1 and (self.is_eigen_node(args[0]) or self.T(args[0])[0] == 'eig'):
                return self.eig(args[0])
            if t[0] == 'eig' and len(args) == t[2] * t[3] and all(is_scalar(self.T(a)) for a in args):
                vals = [self.expr(a) for a in args]
                self.rule('eigen: coefficient constructor')
                return EigVal(t[1], t[2], t[3], lambda i, j: vals[i * t[3] + j])
            self.err(n, 'Eigen construct with %d args' % len(args))
        if k == 'CXXOperatorCallExpr':
            op = self.opname(n)
            args = self.inner(n)[1:]
            if op in ('+', '-') and len(args) == 2 and not (self.is_eigen_node(args[1]) or self.T(args[1])[0] == 'eig'):
                a = self.eig(args[0]); sc = self.expr(args[1])
                self.rule('eigen: array %s scalar' % op)
                r = EigVal(a.st, a.rows, a.cols, lambda i, j: ('bin', op, a.get(i, j), sc, a.st)); r.is_array = True
                return r
            if op in ('+', '-') and len(args) == 2:
                a, b = self.eig(args[0]), self.eig(args[1])
                self.rule('eigen: coefficient-wise %s' % op)
                return EigVal(a.st, a.rows, a.cols, lambda i, j: ('bin', op, a.get(i, j), b.get(i, j), a.st))
            if op == '-' and len(args) == 1:
                a = self.eig(args[0])
                return EigVal(a.st, a.rows, a.cols, lambda i, j: ('un', '-', a.get(i, j), a.st))
            if op == '*' and len(args) == 2:
                l0 = self.strip(args[0])
                while l0['kind'] in ('ImplicitCastExpr', 'MaterializeTemporaryExpr', 'CXXBindTemporaryExpr'):
                    l0 = self.strip(self.inner(l0)[0])
                if l0['kind'] == 'CXXMemberCallExpr' and self.callee_decl(l0).get('name') == 'inverse':
                    A = self.eig(self.inner(self.callee_decl(l0))[0])
                    v = self.eig(args[1])
                    if A.rows == 4 and A.cols == 4 and v.rows == 3 and v.cols == 1:
                        self.rule('Eigen::Affine3d inverse() * v -> assumed contract: the unique x with linear*x + translation = v (affine_solve)')
                        coeffs = [A.get(i, j) for i in range(3) for j in range(4)] + [v.get(i, 0) for i in range(3)]
                        return EigVal(A.st, 3, 1, lambda i, j: ('call', 'affine_solve%d' % i, coeffs, A.st))
            if op in ('*', '/') and len(args) == 2:
                ea = self.is_eigen_node(args[0]) or self.T(args[0])[0] == 'eig'
                eb = self.is_eigen_node(args[1]) or self.T(args[1])[0] == 'eig'
                if ea and eb:
                    a, b = self.eig(args[0]), self.eig(args[1])
                    if op == '*' and a.rows == 4 and a.cols == 4 and b.rows == 3 and b.cols == 1:
                        self.rule('Eigen::Affine3d * vector -> linear part * v + translation')

                        def aff(i, j, a=a, b=b):
                            acc = None
                            for kk in range(3):
                                term = ('bin', '*', a.get(i, kk), b.get(kk, 0), a.st)
                                acc = term if acc is None else ('bin', '+', acc, term, a.st)
                            return ('bin', '+', acc, a.get(i, 3), a.st)
                        return EigVal(a.st, 3, 1, aff)
                    if getattr(a, 'is_array', False) or getattr(b, 'is_array', False):
                        self.rule('eigen: array coefficient-wise %s' % op)
                        r = EigVal(a.st, a.rows, a.cols, lambda i, j: ('bin', op, a.get(i, j), b.get(i, j), a.st))
                        r.is_array = True
                        return r
                    if op == '*':
                        if a.cols != b.rows:
                            self.err(n, 'matrix product shape')
                        self.rule('eigen: fixed-size matrix product expanded (left fold)')

                        def prod(i, j, a=a, b=b):
                            acc = None
                            for kk in range(a.cols):
                                term = ('bin', '*', a.get(i, kk), b.get(kk, j), a.st)
                                acc = term if acc is None else ('bin', '+', acc, term, a.st)
                            return acc
                        return EigVal(a.st, a.rows, b.cols, prod)
                if ea and not eb:
                    a = self.eig(args[0]); s = self.expr(args[1])
                    self.rule('eigen: scalar %s' % op)
                    r = EigVal(a.st, a.rows, a.cols, lambda i, j: ('bin', op, a.get(i, j), s, a.st))
                    r.is_array = getattr(a, 'is_array', False)
                    return r
                if eb and not ea and op == '*':
                    b = self.eig(args[1]); s = self.expr(args[0])
                    self.rule('eigen: scalar *')
                    r = EigVal(b.st, b.rows, b.cols, lambda i, j: ('bin', '*', s, b.get(i, j), b.st))
                    r.is_array = getattr(b, 'is_array', False)
                    return r
            if op in CMP_OPS and len(args) == 2:
                ea = self.is_eigen_node(args[0]) or self.T(args[0])[0] == 'eig'
                eb = self.is_eigen_node(args[1]) or self.T(args[1])[0] == 'eig'
                if ea and not eb:
                    a = self.eig(args[0]); sc = self.expr(args[1])
                    self.rule('eigen: array compared with a scalar (broadcast)')
                    r = EigVal(('bool',), a.rows, a.cols, lambda i, j: ('bin', op, a.get(i, j), sc, ('bool',)))
                    r.is_array = True
                    return r
                if eb and not ea:
                    b = self.eig(args[1]); sc = self.expr(args[0])
                    self.rule('eigen: array compared with a scalar (broadcast)')
                    r = EigVal(('bool',), b.rows, b.cols, lambda i, j: ('bin', op, sc, b.get(i, j), ('bool',)))
                    r.is_array = True
                    return r
                a, b = self.eig(args[0]), self.eig(args[1])
                r = EigVal(('bool',), a.rows, a.cols, lambda i, j: ('bin', op, a.get(i, j), b.get(i, j), ('bool',)))
                r.is_array = True
                return r
            if op == '=':
                self.pre += self.expr_stmt(n)
                return self.eig(args[0])
            if op == '[]' and len(args) == 2 and self.T(args[0])[0] == 'vector' and self.T(args[0])[1][0] == 'eig':
                lv = self.lvalue(n)        # element of a std::vector of fixed-size Eigen objects
                return self.eig_of_lv(lv, self.T(args[0])[1])
            # repository operator returning an Eigen value
            callee = self.callee_decl(n)
            e = self.repo_call(n, callee, args, t)
            return self.eig_of_lv(e, e[-1])
        if k == 'CXXMemberCallExpr':
            me = self.callee_decl(n)
            name = me.get('name')
            obj = self.inner(me)[0]
            args = self.inner(n)[1:]
            if self.is_eigen_node(obj) or self.T(obj)[0] == 'eig':
                return self.eig_method(n, name, obj, args, t)
            e = self.expr(n)
            if e[0] == 'call' and e[-1][0] == 'ptr' and e[-1][1][0] == 'eigdyn' and name in (self.prog.options.get('dyn_returns') or {}):
                shp = self.prog.options['dyn_returns'][name]
                t2 = ('eig', e[-1][1][1], shp[0], shp[1])
                self.rule('reference to a dynamic-size Eigen object returned by %s read with the size the spec binds it to (bounded stand-in)' % name)
                return self.eig_of_lv(('deref', e[:-1] + (('ptr', t2),), t2), t2)
            if e[0] == 'call' and e[-1][0] == 'ptr':
                return self.eig_of_lv(('deref', e, e[-1][1]), e[-1][1])
            if e[0] == 'call' and e[-1][0] == 'eigdyn':
                shp = (self.prog.options.get('dyn_returns') or {}).get(name)
                if shp:
                    # bounded stand-in: the spec states the size of the dynamic-size value this repository method returns
                    t2 = ('eig', e[-1][1], shp[0], shp[1])
                    nm = self.tmp(t2)
                    self.pre.append(('decl', nm, t2, e[:-1] + (t2,)))      # the call is evaluated once, into a temporary
                    e = ('var', nm, t2)
                    self.rule('dynamic-size Eigen value returned by %s read with the size the spec binds it to (bounded stand-in)' % name)
            return self.eig_of_lv(e, e[-1])
        if k == 'CallExpr':
            callee = self.callee_decl(n)
            name = callee.get('referencedDecl', {}).get('name', '') if callee['kind'] == 'DeclRefExpr' else callee.get('name', '')
            args = self.inner(n)[1:]
            if name in ('UnitX', 'UnitY', 'UnitZ', 'UnitW') and not args:
                if t[0] != 'eig':
                    t = self.shape_from_str(node_type(n), n)
                ku = 'XYZW'.index(name[-1])
                self.rule('eigen: UnitX/Y/Z()')
                return EigVal(t[1], t[2], t[3], lambda i, j: ('const', t[1], 1 if max(i, j) == ku else 0))
            if name in ('Zero', 'Ones', 'Identity', 'Constant'):
                if t[0] != 'eig':
                    t = self.shape_from_str(node_type(n), n)
                R, C = t[2], t[3]
                if R < 0 or C < 0:
                    # dynamic-size form with run-time size arguments: Identity(r, c), Zero(n), Constant(r, c, v)
                    dims = [self.const_int(a) for a in (args[:-1] if name == 'Constant' else args)]
                    if any(d is None for d in dims) or not dims:
                        self.err(n, 'dynamic-size %s() with non-constant size arguments' % name)
                    if len(dims) == 1:
                        R, C = (dims[0], 1) if C == 1 or R < 0 and C >= 0 else (1, dims[0])
                        if t[3] == 1:
                            R, C = dims[0], 1
                    else:
                        R, C = dims[0], dims[1]
                    if name == 'Constant':
                        args = args[-1:]
                    self.rule('eigen: dynamic-size %s() with constant size arguments' % name)
                if name == 'Constant':
                    v = self.expr(args[0])
                    self.rule('eigen: Constant()')
                    return EigVal(t[1], R, C, lambda i, j: v)
                self.rule('eigen: %s()' % name)
                if name == 'Identity':
                    return EigVal(t[1], R, C, lambda i, j: ('const', t[1], 1 if i == j else 0))
                c = 0 if name == 'Zero' else 1
                return EigVal(t[1], R, C, lambda i, j: ('const', t[1], c))
            if name in ('floor', 'ceil', 'abs', 'sqrt', 'square') and len(args) == 1 and self.is_eigen_node(args[0]):
                a = self.eig(args[0])
                self.rule('eigen: coefficient-wise free function ' + name)
                if name == 'square':
                    r = EigVal(a.st, a.rows, a.cols, lambda i, j: ('bin', '*', a.get(i, j), a.get(i, j), a.st))
                else:
                    fn = 'fabs' if name == 'abs' and a.st[0] == 'float' else name
                    r = EigVal(a.st, a.rows, a.cols, lambda i, j: ('call', fn, [a.get(i, j)], a.st))
                r.is_array = True
                return r
            e = self.expr(n)
            if e[0] == 'call' and e[-1][0] == 'ptr':
                return self.eig_of_lv(('deref', e, e[-1][1]), e[-1][1])
            return self.eig_of_lv(e, e[-1])
        self.err(n, 'Eigen-valued expression')

    def shape_from_str(self, q, n):
        m = re.search(r'Eigen::(?:Matrix|Array)<([^,<>]+), (-?\d+), (-?\d+)', q)
        if not m:
            self.err(n, 'cannot read Eigen shape from type ' + q)
        st, _, _ = parse_type(m.group(1))
        return ('eig', st, int(m.group(2)), int(m.group(3)))

    def eig_of_lv(self, lv, t):
        if t[0] != 'eig':
            raise ExtractError('%s: expected fixed-size Eigen type, got %r' % (self.cname, t))
        C = t[3]
        return EigVal(t[1], t[2], t[3], lambda i, j: ('elem', lv, i * C + j, t[1]), lv=lv)

    def eig_method(self, n, name, obj, args, t):
        if name == 'finished':
            # (Matrix() << a, b, c, d).finished()
            items = []

            def flat(x):
                x = self.strip(x)
                if x['kind'] == 'CXXOperatorCallExpr' and self.opname(x) == ',':
                    aa = self.inner(x)[1:]
                    flat(aa[0]); items.append(aa[1])
                elif x['kind'] == 'CXXOperatorCallExpr' and self.opname(x) == '<<':
                    aa = self.inner(x)[1:]
                    items.append(aa[1])
                else:
                    self.err(x, 'comma initialiser shape')
            flat(obj)
            if t[0] != 'eig':
                t = self.shape_from_str(node_type(n), n)
            vals = [self.expr(v) for v in items]
            if len(vals) != t[2] * t[3]:
                self.err(n, 'comma initialiser arity')
            self.rule('eigen: comma initialiser expanded row-major')
            return EigVal(t[1], t[2], t[3], lambda i, j: vals[i * t[3] + j])
        o0 = self.strip(obj)
        while o0['kind'] in ('ImplicitCastExpr', 'ParenExpr') and self.inner(o0):
            o0 = self.strip(self.inner(o0)[0])
        if name in ('eigenvalues', 'eigenvectors') and 'SelfAdjointEigenSolver<' in (node_type(o0) + self.desugar(o0)):
            key = self.solver_key(o0)
            if key not in self.eigh_vars:
                self.err(n, 'SelfAdjointEigenSolver::%s() without a compute() of the same solver object earlier in this function' % name)
            coeffs, st, nn = self.eigh_vars[key]
            if name == 'eigenvalues':
                return EigVal(st, nn, 1, lambda i, j: ('call', 'eigh%d_l%d' % (nn, i), list(coeffs), st))
            return EigVal(st, nn, nn, lambda i, j: ('call', 'eigh%d_v%d%d' % (nn, i, j), list(coeffs), st))
        if o0['kind'] == 'DeclRefExpr' and o0.get('referencedDecl', {}).get('id') in self.svd_vars and name in ('singularValues', 'matrixU', 'matrixV'):
            coeffs, st, nn = self.svd_vars[o0['referencedDecl']['id']]
            if name == 'singularValues':
                return EigVal(st, nn, 1, lambda i, j: ('call', 'svd%d_s%d' % (nn, i), list(coeffs), st))
            letter = 'u' if name == 'matrixU' else 'v'
            return EigVal(st, nn, nn, lambda i, j: ('call', 'svd%d_%s%d%d' % (nn, letter, i, j), list(coeffs), st))
        if name == 'solve' and o0['kind'] == 'CXXMemberCallExpr' and self.callee_decl(o0).get('name') in ('ldlt', 'llt', 'partialPivLu', 'fullPivLu', 'colPivHouseholderQr'):
            # A.ldlt().solve(B): ASSUMED contract of the decomposition: the result X satisfies A X = B, i.e. X = A^-1 B, written with the
            # adjugate over the determinant for a 2x2 / 3x3 A (the division carries the obligation det A != 0)
            A0 = self.eig(self.inner(self.callee_decl(o0))[0])
            if self.callee_decl(o0).get('name') in ('ldlt', 'llt'):
                # Eigen's LDLT / LLT of a plain matrix read its lower triangle only (UpLo = Lower): the decomposed matrix is the
                # symmetric matrix with that lower triangle
                A = EigVal(A0.st, A0.rows, A0.cols, lambda i, j: A0.get(max(i, j), min(i, j)))
            else:
                A = A0
            Bm = self.eig(args[0])
            nn = A.rows
            if A.rows != A.cols or nn not in (2, 3) or Bm.rows != nn:
                self.err(n, 'decomposition solve of a %dx%d system has no contract here' % (A.rows, A.cols))
            st = A.st
            mulx = lambda x, y: ('bin', '*', x, y, st)
            subx = lambda x, y: ('bin', '-', x, y, st)
            addx = lambda x, y: ('bin', '+', x, y, st)
            if nn == 2:
                det = subx(mulx(A.get(0, 0), A.get(1, 1)), mulx(A.get(0, 1), A.get(1, 0)))
                adj = [[A.get(1, 1), ('un', '-', A.get(0, 1), st)], [('un', '-', A.get(1, 0), st), A.get(0, 0)]]
            else:
                def minor(i, j):
                    rr = [x for x in range(3) if x != i]; cc = [x for x in range(3) if x != j]
                    return subx(mulx(A.get(rr[0], cc[0]), A.get(rr[1], cc[1])), mulx(A.get(rr[0], cc[1]), A.get(rr[1], cc[0])))
                cof = [[minor(i, j) if (i + j) % 2 == 0 else ('un', '-', minor(i, j), st) for j in range(3)] for i in range(3)]
                det = addx(addx(mulx(A.get(0, 0), cof[0][0]), mulx(A.get(0, 1), cof[0][1])), mulx(A.get(0, 2), cof[0][2]))
                adj = [[cof[j][i] for j in range(3)] for i in range(3)]
            self.rule('Eigen decomposition solve -> assumed contract X = adj(A) B / det(A) (2x2 / 3x3)')

            def sol(i, j):
                acc = None
                for kk in range(nn):
                    term = mulx(adj[i][kk], Bm.get(kk, j))
                    acc = term if acc is None else addx(acc, term)
                return ('bin', '/', acc, det, st)
            return EigVal(st, nn, Bm.cols, sol)
        a = self.eig(obj)
        if name in EIGEN_PASS:
            r = EigVal(a.st, a.rows, a.cols, a.get, lv=a.lv)
            if hasattr(a, 'sub'):
                r.sub = a.sub          # array() / matrix() / eval() of a block view is still a view of the same coefficients
            if name == 'array':
                r.is_array = True
            elif name == 'matrix':
                r.is_array = False
            else:
                r.is_array = getattr(a, 'is_array', False)
            return r
        if name == 'transpose':
            self.rule('eigen: transpose')
            return EigVal(a.st, a.cols, a.rows, lambda i, j: a.get(j, i))
        if name in ('cwiseAbs', 'abs'):
            self.rule('eigen: coefficient-wise abs')
            fn = 'fabs' if a.st[0] == 'float' else 'abs'
            r = EigVal(a.st, a.rows, a.cols, lambda i, j: ('call', fn, [a.get(i, j)], a.st)); r.is_array = getattr(a, 'is_array', False); return r
        if name in ('floor', 'ceil', 'sqrt', 'square', 'inverse', 'cwiseInverse', 'cwiseSqrt'):
            self.rule('eigen: coefficient-wise ' + name)
            if name in ('floor', 'ceil', 'sqrt', 'cwiseSqrt'):
                fn = name.replace('cwiseSqrt', 'sqrt')
                r = EigVal(a.st, a.rows, a.cols, lambda i, j: ('call', fn, [a.get(i, j)], a.st))
            elif name == 'square':
                r = EigVal(a.st, a.rows, a.cols, lambda i, j: ('bin', '*', a.get(i, j), a.get(i, j), a.st))
            else:
                r = EigVal(a.st, a.rows, a.cols, lambda i, j: ('bin', '/', ('const', a.st, 1), a.get(i, j), a.st))
            r.is_array = getattr(a, 'is_array', False)
            return r
        if name in ('min', 'max', 'cwiseMin', 'cwiseMax') and len(args) == 1:
            big = name in ('max', 'cwiseMax')
            at = self.T(args[0])
            if is_scalar(at):
                s = self.expr(args[0])
                bget = lambda i, j: s
            else:
                b = self.eig(args[0])
                bget = b.get
            self.rule('eigen: coefficient-wise min/max (Eigen tie rule: (a<b)?a:b / (a<b)?b:a)')

            def mm(i, j):
                x, y = a.get(i, j), bget(i, j)
                if big:
                    return ('cond', ('bin', '<', x, y, ('bool',)), y, x, a.st)
                return ('cond', ('bin', '<', x, y, ('bool',)), x, y, a.st)
            r = EigVal(a.st, a.rows, a.cols, mm); r.is_array = getattr(a, 'is_array', False); return r
        if name in ('cwiseProduct', 'cwiseQuotient'):
            b = self.eig(args[0])
            op = '*' if name == 'cwiseProduct' else '/'
            return EigVal(a.st, a.rows, a.cols, lambda i, j: ('bin', op, a.get(i, j), b.get(i, j), a.st))
        if name == 'cast':
            tt = t
            if tt[0] != 'eig':
                # expression template type: read target scalar from the member's template args
                q = node_type(n)
                m = re.search(r'scalar_cast_op<([^,]+), ([^>]+)>', q)
                if not m:
                    self.err(n, 'cannot determine cast<> target')
                st, _, _ = parse_type(m.group(2))
            else:
                st = tt[1]
            self.rule('eigen: cast<T>() coefficient-wise conversion')
            r = EigVal(st, a.rows, a.cols, lambda i, j: ('cast', a.get(i, j), a.st, st)); r.is_array = getattr(a, 'is_array', False); return r
        if name in ('translation', 'linear', 'rotation', 'matrix') and a.rows == 4 and a.cols == 4 and 'Transform' in node_type(obj) + self.desugar(obj):
            self.rule('Eigen::Affine3d %s() -> block of its 4x4 homogeneous matrix%s' % (name, ' (rotation() = linear part: rigid transforms assumed)' if name == 'rotation' else ''))
            vb, vi = self.view_of(a)
            if name == 'matrix':
                return a
            if name == 'translation':
                r = EigVal(a.st, 3, 1, lambda i, j: a.get(i, 3))
                if vb is not None:
                    r.sub = (vb, [vi[i * 4 + 3] for i in range(3)])
                return r
            r = EigVal(a.st, 3, 3, lambda i, j: a.get(i, j))
            if vb is not None:
                r.sub = (vb, [vi[i * 4 + j] for i in range(3) for j in range(3)])
            return r
        if name in ('col', 'row'):
            k = self.const_index(args[0])
            if name == 'col':
                r = EigVal(a.st, a.rows, 1, lambda i, j: a.get(i, k))
                vb, vi = self.view_of(a)
                if vb is not None:
                    r.sub = (vb, [vi[i * a.cols + k] for i in range(a.rows)])
            else:
                r = EigVal(a.st, 1, a.cols, lambda i, j: a.get(k, j))
                vb, vi = self.view_of(a)
                if vb is not None:
                    r.sub = (vb, [vi[k * a.cols + j] for j in range(a.cols)])
            self.rule('eigen: col()/row() with constant index')
            return r
        if name in ('head', 'tail', 'segment', 'block', 'topLeftCorner', 'topRows', 'leftCols', 'bottomRows', 'rightCols', 'topRightCorner', 'bottomLeftCorner', 'bottomRightCorner'):
            return self.eig_block(n, name, a, args, t)
        if name == 'cross' and a.rows * a.cols == 3:
            b = self.eig(args[0])
            ga = lambda k: a.get(k, 0) if a.cols == 1 else a.get(0, k)
            gb = lambda k: b.get(k, 0) if b.cols == 1 else b.get(0, k)
            self.rule('eigen: cross product expanded')

            def cr(i, j):
                k = i if a.cols == 1 else j
                k1, k2 = (k + 1) % 3, (k + 2) % 3
                return ('bin', '-', ('bin', '*', ga(k1), gb(k2), a.st), ('bin', '*', ga(k2), gb(k1), a.st), a.st)
            return EigVal(a.st, a.rows, a.cols, cr)
        if name == 'toRotationMatrix' and a.rows == 4 and a.cols == 1:
            return self.quat_to_rot(a)
        if name == 'normalized':
            nrm = ('call', 'sqrt', [self._fold_sq(a)], a.st)
            return EigVal(a.st, a.rows, a.cols, lambda i, j: ('bin', '/', a.get(i, j), nrm, a.st))
        self.err(n, 'Eigen method %s' % name)

    def solver_key(self, n):
        n = self.strip(n)
        while n['kind'] in ('ImplicitCastExpr', 'ParenExpr') and self.inner(n):
            n = self.strip(self.inner(n)[0])
        if n['kind'] == 'MemberExpr':
            return 'member:' + n.get('name', '?')
        if n['kind'] == 'DeclRefExpr':
            return 'var:' + str(n.get('referencedDecl', {}).get('id'))
        self.err(n, 'eigen-solver object expression')

    def desugar(self, n):
        t = n.get('type', {})
        return (t.get('desugaredQualType') or '') + (t.get('qualType') or '')

    def view_of(self, a):
        """(base lvalue, flat index of every coefficient) when the Eigen value is an lvalue or a view of one, else (None, None)"""
        if a.lv is not None:
            return a.lv, list(range(a.rows * a.cols))
        if hasattr(a, 'sub'):
            return a.sub
        return None, None

    def _fold_sq(self, a):
        acc = None
        for i in range(a.rows):
            for j in range(a.cols):
                term = ('bin', '*', a.get(i, j), a.get(i, j), a.st)
                acc = term if acc is None else ('bin', '+', acc, term, a.st)
        return acc

    def eig_block(self, n, name, a, args, t):
        # template-argument forms: block<R,C>(i,j), head<N>(), segment<N>(i), topLeftCorner<R,C>() ...
        q = node_type(n)
        m = re.search(r'Block<.*?, (-?\d+), (-?\d+), (true|false)>', q)
        args = [x for x in args if self.strip(x)['kind'] != 'CXXDefaultArgExpr']      # head<N>(n = N)
        idx = [self.const_index(x) for x in args]
        R, C = (int(m.group(1)), int(m.group(2))) if m else (-1, -1)
        if not m and name in ('head', 'tail', 'segment'):
            mv = re.search(r'VectorBlock<.*,\s*(-?\d+)>\s*$', q.strip())       # head<N>() / tail<N>() / segment<N>(i) on a vector
            if mv and int(mv.group(1)) >= 0:
                R, C = (int(mv.group(1)), 1) if a.cols == 1 else (1, int(mv.group(1)))
        if R < 0 or C < 0:
            # run-time sized block whose size arguments are compile-time constants: head(n), tail(n), segment(i,n), block(i,j,r,c)
            vec_col = a.cols == 1
            if name in ('head', 'tail') and len(idx) == 1:
                R, C = (idx[0], 1) if vec_col else (1, idx[0]); idx = []
            elif name == 'segment' and len(idx) == 2:
                R, C = (idx[1], 1) if vec_col else (1, idx[1]); idx = idx[:1]
            elif name == 'block' and len(idx) == 4:
                R, C = idx[2], idx[3]; idx = idx[:2]
            elif name in ('topRows', 'bottomRows') and len(idx) == 1:
                R, C = idx[0], a.cols; idx = []
            elif name in ('leftCols', 'rightCols') and len(idx) == 1:
                R, C = a.rows, idx[0]; idx = []
            else:
                self.err(n, 'dynamic block')
            self.rule('eigen: run-time sized block with compile-time constant size arguments')
        if name == 'block':
            i0, j0 = idx[0], idx[1]
        elif name == 'head':
            i0, j0 = 0, 0
        elif name == 'tail':
            i0, j0 = (a.rows - R, 0) if a.cols == 1 else (0, a.cols - C)
        elif name == 'segment':
            i0, j0 = (idx[0], 0) if a.cols == 1 else (0, idx[0])
        elif name in ('topLeftCorner', 'topRows', 'leftCols'):
            i0, j0 = 0, 0
        elif name == 'bottomRows':
            i0, j0 = a.rows - R, 0
        elif name == 'rightCols':
            i0, j0 = 0, a.cols - C
        elif name == 'topRightCorner':
            i0, j0 = 0, a.cols - C
        elif name == 'bottomLeftCorner':
            i0, j0 = a.rows - R, 0
        elif name == 'bottomRightCorner':
            i0, j0 = a.rows - R, a.cols - C
        self.rule('eigen: fixed-size block with constant offsets')
        r = EigVal(a.st, R, C, lambda i, j: a.get(i0 + i, j0 + j))
        vb, vi = self.view_of(a)
        if vb is not None:
            r.sub = (vb, [vi[(i0 + i) * a.cols + (j0 + j)] for i in range(R) for j in range(C)])
        return r
