#!/usr/bin/env python3
"""
replay.py -- from a refuted obligation to a replay file and a native run against /repo's current sources.

replays/<pid>/<hash>.json : {property, obligation, function, spec, harness, case, inputs (ghost/witness values read
from the verifier's counterexample), verifier_output (trace tail or SMT model), native: {cmd, exit, output}}.
The native driver replay/<pid>.cpp is compiled on every use against /repo (needed .cpp files compiled directly).
It first replays the counterexample's inputs, then runs a seeded neighbourhood search; it prints
'FAILING-INPUT: ...' and exits 1 when the real code violates the executable statement of the property.
"""
import os, sys, json, re, hashlib, subprocess, time

VERIF = os.path.dirname(os.path.dirname(os.path.abspath(__file__)))
REPO = os.environ.get('VERIF_REPO', '/repo')


def ghost_inputs(ob):
    """last value assigned to each witness/ghost variable (g_* / w_*) in the counterexample trace, or SMT model values"""
    vals = {}
    for step in ob.get('trace', []) or []:
        lhs, val = step[0], step[1]
        if isinstance(lhs, str) and re.match(r'^(g_|w_)\w+(\[\d+l?\])?$', lhs) and val is not None and val != 'struct':
            vals[lhs.replace('l]', ']')] = val
    for k, v in (ob.get('model') or {}).items():
        vals[k] = v
    return vals


_BUILT = {}


def build_driver(pid, work):
    if pid in _BUILT:
        return _BUILT[pid]
    r = _build_driver(pid, work)
    _BUILT[pid] = r
    return r


def _build_driver(pid, work):
    src = os.path.join(VERIF, 'replay', pid + '.cpp')
    if not os.path.exists(src):
        return None, 'no native replay driver for ' + pid
    meta_p = os.path.join(VERIF, 'specs', pid, 'meta.json')
    meta = json.load(open(meta_p)) if os.path.exists(meta_p) else {}
    srcs = [os.path.join(REPO, s) for s in meta.get('replay_sources', [])]
    exe = os.path.join(work, 'replay_' + pid)
    cmd = ['g++', '-std=c++17', '-O1', '-DNDEBUG', '-fno-access-control', '-I' + REPO + '/include', '-isystem', '/usr/include/eigen3',
           src] + srcs + ['-o', exe, '-lpthread'] + meta.get('replay_flags', [])
    r = subprocess.run(cmd, stdout=subprocess.PIPE, stderr=subprocess.STDOUT, text=True)
    if r.returncode != 0:
        return None, 'native driver does not compile against the current tree:\n' + r.stdout[-3000:]
    return exe, ' '.join(cmd)


def run_driver(exe, inputs, obligation, seed, timeout=300):
    args = [exe, 'seed=%d' % seed, 'obligation=' + obligation] + ['%s=%s' % (k, v) for k, v in sorted(inputs.items())]
    try:
        r = subprocess.run(args, stdout=subprocess.PIPE, stderr=subprocess.STDOUT, text=True, timeout=timeout)
        return r.returncode, r.stdout[-6000:], ' '.join(args[:3]) + ' ...'
    except subprocess.TimeoutExpired as ex:
        out = ex.stdout.decode('utf8', 'replace') if isinstance(ex.stdout, bytes) else (ex.stdout or '')
        return 1, out[-3000:] + '\nFAILING-INPUT: native run did not terminate within %ds (hang)' % timeout, ' '.join(args[:3])


_FIRST = {}


def make_replay(pid, name, ob, seed, native=True):
    work = os.path.join(VERIF, '.work', pid)
    os.makedirs(work, exist_ok=True)
    inputs = ghost_inputs(ob)
    rec = {
        'property': pid, 'obligation': name, 'function': ob.get('function'), 'spec': ob.get('spec'), 'harness': ob.get('harness'),
        'case': ob.get('case', ''), 'description': ob.get('description') or ob.get('goal', ''),
        'inputs': inputs,
        'verifier_output': (ob.get('trace') or [])[-120:] if ob.get('trace') else ob.get('raw', ''),
    }
    found = False
    shared = (not native) and pid in _FIRST
    exe, info = (None, '') if shared else build_driver(pid, work)
    if shared:
        rec['native'] = dict(_FIRST[pid], note='native run shared with the first refuted obligation of this check run')
        found = bool(_FIRST[pid].get('failing_input_found'))
    elif exe is None:
        rec['native'] = {'status': 'unavailable', 'detail': info}
    else:
        rc, out, cmd = run_driver(exe, inputs, name, seed)
        found = (rc == 1 and 'FAILING-INPUT' in out) or (rc != 0 and 'ThreadSanitizer: data race' in out)
        rec['native'] = {'build': info, 'cmd': cmd, 'exit': rc, 'output': out, 'failing_input_found': found}
        _FIRST.setdefault(pid, rec['native'])
    h = hashlib.sha1((name + json.dumps(inputs, sort_keys=True)).encode()).hexdigest()[:10]
    path = os.path.join(VERIF, 'replays', pid, '%s.json' % h)
    os.makedirs(os.path.dirname(path), exist_ok=True)
    json.dump(rec, open(path, 'w'), indent=1)
    return path, found


def run_replay(pid, path, seed):
    rec = json.load(open(path))
    work = os.path.join(VERIF, '.work', pid)
    os.makedirs(work, exist_ok=True)
    exe, info = build_driver(pid, work)
    if exe is None:
        print('replay: ' + info)
        return 2
    rc, out, cmd = run_driver(exe, rec.get('inputs', {}), rec.get('obligation', ''), seed)
    print(out)
    if (rc == 1 and 'FAILING-INPUT' in out) or (rc != 0 and 'ThreadSanitizer: data race' in out):
        print('VIOLATION property=%s replay=%s' % (pid, path))
        return 1
    print('replay: the recorded obligation %s does not reproduce natively on the current tree' % rec.get('obligation'))
    return 0
