#!/usr/bin/env python3
"""setup: nothing is built (python + installed binaries); verify the tools are present"""
import shutil, subprocess, sys
need = ['clang++-14', 'cbmc', 'goto-cc', 'goto-instrument', 'g++', 'z3', 'cvc5', 'python3']
missing = [t for t in need if shutil.which(t) is None]
for t in ['cbmc', 'clang++-14']:
    if shutil.which(t):
        print(t, subprocess.run([t, '--version'], stdout=subprocess.PIPE, stderr=subprocess.STDOUT, text=True).stdout.split('\n')[0])
if missing:
    print('missing tools:', missing); sys.exit(1)
print('setup ok')
