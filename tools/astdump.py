#!/usr/bin/env python3
"""Debug helper: print a compact tree of clang's JSON AST for functions matching a name."""
import json, sys
def load_all(path):
    dec = json.JSONDecoder(); s = open(path).read(); i = 0; out = []
    while i < len(s):
        while i < len(s) and s[i].isspace(): i += 1
        if i >= len(s): break
        obj, j = dec.raw_decode(s, i); out.append(obj); i = j
    return out
def show(n, d=0, maxd=60):
    if d > maxd: return
    t = n.get('type', {}).get('qualType', '')
    extra = []
    for k in ('name', 'opcode', 'value', 'castKind', 'valueCategory', 'isPostfix'):
        if k in n: extra.append('%s=%s' % (k, n[k]))
    if 'referencedDecl' in n:
        r = n['referencedDecl']; extra.append('ref=%s:%s' % (r.get('kind'), r.get('name')))
    if 'referencedMemberDecl' in n: extra.append('member=%s' % n['referencedMemberDecl'])
    print('  ' * d + n.get('kind', '?') + ' ' + ' '.join(extra) + (' : ' + t if t else ''))
    for c in n.get('inner', []): show(c, d + 1, maxd)
def find(n, name, acc, path=()):
    if n.get('kind') in ('CXXMethodDecl', 'FunctionDecl', 'CXXConstructorDecl') and n.get('name') == name and any(c.get('kind') == 'CompoundStmt' for c in n.get('inner', [])):
        acc.append((path, n))
    for c in n.get('inner', []): find(c, name, acc, path + (n.get('kind', '') + ':' + n.get('name', ''),))
if __name__ == '__main__':
    objs = load_all(sys.argv[1]); acc = []
    for o in objs: find(o, sys.argv[2], acc)
    for p, n in acc:
        print('#', p, n.get('type', {}).get('qualType'))
        show(n, 0, int(sys.argv[3]) if len(sys.argv) > 3 else 60)
