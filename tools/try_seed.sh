#!/bin/bash
# try_seed.sh <seed-id> <property> [tier]: apply /verif/seeded/<seed-id>/patch.diff to /repo, run the check, undo.
SEED=$1; PID=$2; TIER=${3:-quick}
cd /repo || exit 2
if ! git diff --quiet; then echo "repo not clean"; exit 2; fi
git apply /verif/seeded/$SEED/patch.diff || { echo "patch does not apply"; exit 2; }
cd /verif
./check $PID --tier $TIER > /verif/.work/seed_$SEED.log 2>&1; RC=$?
git -C /repo checkout -- .
echo "seed=$SEED property=$PID exit=$RC"
grep -E "^(VIOLATION|KNOWN-FINDING|NO-VERDICT|OK)" /verif/.work/seed_$SEED.log | head -8
