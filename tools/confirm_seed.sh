#!/bin/bash
# confirm_seed.sh <seed-id> <property> <worktree-with-patch-applied>: everything the brief asks to be confirmed before a seeded change is kept:
# demo fails with the patch and passes without it, the whole project builds and its test suite passes with the patch, and what ./check says.
# Writes seeded/<seed-id>/confirm.log; the caller removes the worktree afterwards.
SEED=$1; PID=$2; WT=$3; D=/verif/seeded/$SEED; L=$D/confirm.log
{
 echo "== base commit: $(git -C $WT rev-parse HEAD)"
 echo "== demo WITH patch (must fail)"; $D/run_demo.sh $WT > $D/.out 2>&1; RC=$?; head -8 $D/.out; echo "exit=$RC"
 git -C $WT stash -q
 echo "== demo WITHOUT patch (must pass)"; $D/run_demo.sh $WT > $D/.out 2>&1; RC=$?; head -8 $D/.out; echo "exit=$RC"
 git -C $WT stash pop -q
 echo "== build + ctest WITH patch"
 ( cd $WT && cmake -G Ninja -S . -B _b -DCMAKE_BUILD_TYPE=RelWithDebInfo -DCMAKE_CXX_FLAGS=-Wno-error >/dev/null 2>&1 && cmake --build _b -j8 2>&1 | tail -1 && ctest --test-dir _b -j8 --timeout 900 2>&1 | tail -3 ); echo "tests_exit=$?"
 rm -rf $WT/_b $D/.out
 echo "== /verif check on a patched worktree: tools/try_seed_wt.sh $SEED $PID"
 /verif/tools/try_seed_wt.sh $SEED $PID
} > $L 2>&1
cat $L
