#!/bin/bash
# confirm_seed.sh <seed-id> <srcdir with patch.diff demo.cpp run_demo.sh meta.json>
# Confirms, in a scratch worktree of /repo HEAD, that the patch applies, builds, passes the existing
# suite, and that the demonstration fails with it and passes without it. Copies the seed to /verif/seeded/<id>/.
set -u
ID=$1; SRC=$2
WT=/tmp/confirm_$ID
DST=/verif/seeded/$ID
mkdir -p $DST
cp $SRC/patch.diff $SRC/demo.cpp $SRC/run_demo.sh $SRC/meta.json $DST/ 2>/dev/null
LOG=$DST/confirm.log
: > $LOG
git -C /repo worktree remove --force $WT >/dev/null 2>&1
git -C /repo worktree add -f $WT HEAD >>$LOG 2>&1 || { echo "worktree failed" >>$LOG; exit 2; }
cd $WT
echo "== base commit: $(git rev-parse HEAD)" >>$LOG
echo "== demo WITHOUT patch (must pass)" >>$LOG
( cd $DST && bash ./run_demo.sh $WT ) >>$LOG 2>&1; R0=$?
echo "exit=$R0" >>$LOG
git apply $DST/patch.diff >>$LOG 2>&1 || { echo "RESULT: patch does not apply" >>$LOG; git -C /repo worktree remove --force $WT; exit 2; }
echo "== build + ctest WITH patch" >>$LOG
( cmake -G Ninja -B _build -DCMAKE_BUILD_TYPE=RelWithDebInfo -DCMAKE_CXX_FLAGS=-Wno-error >/dev/null 2>&1 && cmake --build _build -j${JOBS:-8} 2>&1 | tail -2 && ctest --test-dir _build -j8 2>&1 | tail -4 ) >>$LOG 2>&1; RT=$?
grep -q "100% tests passed" $LOG && RT=0 || RT=1
echo "tests_exit=$RT" >>$LOG
echo "== demo WITH patch (must fail)" >>$LOG
( cd $DST && bash ./run_demo.sh $WT ) >>$LOG 2>&1; R1=$?
echo "exit=$R1" >>$LOG
cd /; git -C /repo worktree remove --force $WT
if [ $R0 -eq 0 ] && [ $RT -eq 0 ] && [ $R1 -ne 0 ]; then echo "RESULT: CONFIRMED" >>$LOG; else echo "RESULT: NOT CONFIRMED (demo_without=$R0 tests=$RT demo_with=$R1)" >>$LOG; fi
tail -1 $LOG
