#!/bin/bash
# run_seeds.sh [property ...]: every seed of seeded/ against the check of its property (or of the property given in seeded/<id>/check_with),
# on scratch worktrees; seeds of one property in turn, up to $PAR properties at a time. Output: .work/seeds_final.log
cd "$(dirname "$0")/.."
PAR=${PAR:-3}
PROPS=${@:-$(ls seeded | sed 's/-.*//' | sort -u)}
run_prop() {
  p=$1
  for s in $(ls seeded | grep "^$p-"); do
    tools/try_seed_wt.sh $s $p 2>&1 | head -2 | tr '\n' ' ' | cut -c1-200
    echo
  done
}
export -f run_prop
echo $PROPS | tr ' ' '\n' | xargs -P $PAR -I{} bash -c 'run_prop {}' | tee .work/seeds_final.log
