#!/usr/bin/env python3
"""development helper: brun.py <PID> [regex] -- generate the back end B VCs of a property and decide those whose name matches"""
import sys, os, re, importlib.util, concurrent.futures as cf
VERIF = os.path.dirname(os.path.dirname(os.path.abspath(__file__)))
sys.path.insert(0, os.path.join(VERIF, 'axioms')); sys.path.insert(0, os.path.join(VERIF, 'tools'))
import emit_smt
pid = sys.argv[1]; rx = re.compile(sys.argv[2] if len(sys.argv) > 2 else '.')
work = os.path.join(VERIF, '.work', pid + '_dev'); os.makedirs(work, exist_ok=True)
B = emit_smt.Builder(pid, work, 'quick')
spec = importlib.util.spec_from_file_location('b', os.path.join(VERIF, 'specs', pid, 'b_spec.py'))
mod = importlib.util.module_from_spec(spec); spec.loader.exec_module(mod)
mod.vcs(B)
todo = [vc for vc in B.vcs if rx.search(vc['name'])]
print('%d VCs, %d selected' % (len(B.vcs), len(todo)))
def one(vc):
    return emit_smt.decide(vc, B.smt_text(vc), work, 'quick')
with cf.ThreadPoolExecutor(max_workers=5) as ex:
    for r in ex.map(one, todo):
        print('%-70s %-10s %s %s' % (r['name'], r['status'], r['solver_results'], r.get('smt_file', '') if r['status'] != 'unsat' else ''))
        if r['status'] == 'sat' and '-v' in sys.argv:
            print('   model:', r.get('model'))
