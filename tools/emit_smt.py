#!/usr/bin/env python3
"""
emit_smt.py -- back end B: the IR of front.py executed symbolically over mathematical reals / integers.

double/float -> Real, integers -> Int, bool -> Bool; libm functions are uninterpreted SMT functions constrained
by ground instances of the axiom schemas in axioms/libm.py (trusted, listed in the evidence).  Every division,
sqrt, log, asin/acos, pow call generates a *domain obligation* under its path condition.

A property's B-specification is a python file specs/<id>/b_spec.py with a function  vcs(B)  that builds
verification conditions through the small API of class B below; each VC becomes one SMT-LIB2 query
(check-sat of assumptions and the negated goal); `unsat` from any of z3 / z3-new / cvc5 discharges it.
"""
import shutil, os, sys, re, json, time, subprocess, itertools, importlib.util, concurrent.futures as cf, hashlib
import front
from front import ExtractError

VERIF = os.path.dirname(os.path.dirname(os.path.abspath(__file__)))
SOLVERS = [('z3', ['z3', '-smt2']), ('z3-new', ['z3-new', '-smt2']), ('cvc5', ['cvc5', '--lang', 'smt2'])]
# fourth member: exact polynomial arithmetic (identity modulo the asserted equalities => unsat; exact rational model => sat), see tools/polyid.py
if shutil.which('python3-vt'):
    SOLVERS.append(('polyid', ['python3-vt', os.path.join(os.path.dirname(os.path.abspath(__file__)), 'polyid.py')]))


# ----------------------------------------------------------------------------------------
# terms: SMT-LIB strings, with light simplification
# ----------------------------------------------------------------------------------------
def num(v):
    """python number / C literal string -> SMT real literal (exact decimal -> rational)"""
    if isinstance(v, str):
        s = v.strip().rstrip('fFlL')
        from fractions import Fraction
        try:
            fr = Fraction(s)
        except ValueError:
            fr = Fraction(float(s))
    else:
        from fractions import Fraction
        fr = Fraction(v)
    if fr.denominator == 1:
        return '%d.0' % fr.numerator if fr.numerator >= 0 else '(- %d.0)' % (-fr.numerator)
    n, d = fr.numerator, fr.denominator
    return '(/ %d.0 %d.0)' % (n, d) if n >= 0 else '(- (/ %d.0 %d.0))' % (-n, d)


def inum(v):
    v = int(v)
    return str(v) if v >= 0 else '(- %d)' % (-v)


def app(op, *args):
    return '(%s %s)' % (op, ' '.join(args))


def is_lit(t, val=None):
    if val is None:
        return re.match(r'^\d+(\.\d+)?$', t) is not None
    return t in (str(val), '%d.0' % val)


def add(a, b):
    if is_lit(a, 0): return b
    if is_lit(b, 0): return a
    if re.match(r'^\d+$', a) and re.match(r'^\d+$', b): return str(int(a) + int(b))
    return app('+', a, b)


def sub(a, b):
    if is_lit(b, 0): return a
    return app('-', a, b)


def mul(a, b):
    if is_lit(a, 0) or is_lit(b, 0): return '0.0' if ('.' in a or '.' in b) else '0'
    if is_lit(a, 1): return b
    if is_lit(b, 1): return a
    return app('*', a, b)


def neg(a):
    if is_lit(a, 0): return a
    return app('-', a)


def ite(c, a, b):
    if c == 'true': return a
    if c == 'false': return b
    if a == b: return a
    return app('ite', c, a, b)


def land(*cs):
    cs = [c for c in cs if c != 'true']
    if any(c == 'false' for c in cs): return 'false'
    if not cs: return 'true'
    if len(cs) == 1: return cs[0]
    return app('and', *cs)


def lor(*cs):
    cs = [c for c in cs if c != 'false']
    if any(c == 'true' for c in cs): return 'true'
    if not cs: return 'false'
    if len(cs) == 1: return cs[0]
    return app('or', *cs)


def lnot(c):
    if c == 'true': return 'false'
    if c == 'false': return 'true'
    return app('not', c)


def implies(a, b):
    if a == 'true': return b
    return app('=>', a, b)


PI_LITERALS = [(3.141592653589793, 'pi'), (1.5707963267948966, '(/ pi 2.0)'), (0.7853981633974483, '(/ pi 4.0)'), (6.283185307179586, '(* 2.0 pi)')]
LIBM1 = {'sin', 'cos', 'tan', 'atan', 'asin', 'acos', 'exp', 'log', 'sqrt'}
LIBM2 = {'atan2', 'pow', 'fmod'}


class Undecided(Exception):
    pass


# ----------------------------------------------------------------------------------------
# symbolic executor
# ----------------------------------------------------------------------------------------
class Val:
    """structured symbolic value: scalar term (str), Eigen (list of terms), struct (dict), pointer (('ptr', cell))"""
    pass


class Cell:
    """a mutable memory cell holding a structured value"""

    def __init__(self, v):
        self.v = v


class Ref:
    """pointer to a scalar sub-object: container[key]"""

    def __init__(self, container, key):
        self.container, self.key = container, key

    @property
    def v(self):
        return self.container[self.key]

    @v.setter
    def v(self, val):
        self.container[self.key] = val


class ReturnSignal(Exception):
    pass


class SymExec:
    def __init__(self, builder):
        self.B = builder
        self.prog = builder.prog
        self.depth = 0

    # -- types ---------------------------------------------------------------------------
    def sort(self, t):
        if t[0] == 'float': return 'Real'
        if t[0] in ('int', 'enum', 'duration', 'iter'): return 'Int'
        if t[0] == 'bool': return 'Bool'
        raise ExtractError('emit_smt: no sort for %r' % (t,))

    def fresh_value(self, t, name):
        """a fresh symbolic value of IR type t (declares the needed constants)"""
        if front.is_scalar(t):
            return self.B.const(name, self.sort(t))
        if t[0] == 'eig':
            return [self.B.const('%s_%d' % (name, k), self.sort(t[1])) for k in range(t[2] * t[3])]
        if t[0] == 'struct':
            rec = self.prog.records[t[1]]
            d = {}
            for b in rec['bases']:
                d['base'] = self.fresh_value(('struct', b), name + '_base')
            for fn, ft in rec['fields']:
                if ft[0] in ('mutex',):
                    continue
                if ft[0] in ('vector', 'list', 'map', 'queue', 'string'):
                    d[fn] = None           # containers have no meaning over the reals (back end A covers them)
                    continue
                d[fn] = self.fresh_value(ft, name + '_' + fn)
            return d
        if t[0] == 'mutex':
            return {'held': '0'}
        raise ExtractError('emit_smt: cannot make a symbolic value of type %r' % (t,))

    def default_value(self, t):
        if front.is_scalar(t):
            return None
        if t[0] == 'eig':
            return [None] * (t[2] * t[3])
        if t[0] == 'struct':
            rec = self.prog.records[t[1]]
            d = {}
            for b in rec['bases']:
                d['base'] = self.default_value(('struct', b))
            for fn, ft in rec['fields']:
                if ft[0] in ('vector', 'list', 'map', 'queue', 'string'):
                    d[fn] = None
                    continue
                d[fn] = self.default_value(ft) if ft[0] != 'mutex' else {'held': '0'}
            return d
        if t[0] == 'mutex':
            return {'held': '0'}
        if t[0] == 'ptr':
            return None
        if t[0] == 'opaque':
            return None        # a member of a type outside the extractor's reach (third-party solver object): never read by extracted code, else its use fails
        raise ExtractError('emit_smt: no default value for type %r' % (t,))

    def arbitrary_value(self, t, prefix):
        """a value of type t all of whose scalars are fresh symbols (an arbitrary prior state)"""
        B = self.B
        if front.is_scalar(t):
            return B.real(prefix) if t[0] == 'float' else (B.const(prefix, 'Bool') if t[0] == 'bool' else B.int(prefix))
        if t[0] == 'eig':
            return [(B.real if t[1][0] == 'float' else B.int)('%s_%d' % (prefix, k)) for k in range(t[2] * t[3])]
        if t[0] == 'struct':
            rec = self.prog.records[t[1]]
            d = {}
            for b in rec['bases']:
                d['base'] = self.arbitrary_value(('struct', b), prefix + '_base')
            for fn, ft in rec['fields']:
                if ft[0] in ('vector', 'list', 'map', 'queue', 'string', 'ptr'):
                    d[fn] = None
                elif ft[0] == 'mutex':
                    d[fn] = {'held': '0'}
                else:
                    d[fn] = self.arbitrary_value(ft, prefix + '_' + fn)
            return d
        return self.default_value(t)

    # -- calling a function -----------------------------------------------------------------
    def call(self, cname, args, pc='true'):
        """args: list of values (scalars: terms; aggregates by pointer: Cell). returns value"""
        if cname.startswith(('stdvec_', 'stdlist_', 'stdmap_')):
            self.B.note('container model call %s ignored in back end B (containers are back end A\'s business)' % cname)
            return None
        if cname in self.B.overrides:
            self.B.note('call to %s answered by the spec-level contract registered for it (assumed here, enforced elsewhere)' % cname)
            self.B.override_pc = pc          # the path condition under which the contract-answered call is made (readable by the spec)
            return self.B.overrides[cname](args)
        fn = self.prog.functions.get(cname)
        if fn is None:
            raise ExtractError('emit_smt: function %s not extracted' % cname)
        self.depth += 1
        if self.depth > 12:
            raise ExtractError('emit_smt: call depth')
        env = {}
        for (pname, pt, kind), a in zip(fn.params, args):
            env[pname] = Cell(a)
        fr = Frame(self, fn, env)
        ret = fr.run(pc)
        self.depth -= 1
        if self.depth == 0:
            self.B.last_env = {k: c.v for k, c in fr.env.items()}     # locals of the outermost call, for specs about intermediate values
        return ret


class Frame:
    def __init__(self, sx, fn, env):
        self.sx, self.fn, self.env = sx, fn, env
        self.B = sx.B
        self.returns = []    # (path condition, value)

    def run(self, pc):
        live = self.block(self.fn.body, pc)
        # merge returns
        if not self.returns:
            return None
        val = self.returns[-1][1]
        for c, v in reversed(self.returns[:-1]):
            val = self.merge(c, v, val)
        return val

    def merge(self, c, a, b):
        if isinstance(a, list):
            return [self.merge(c, x, y) for x, y in zip(a, b)]
        if isinstance(a, dict):
            return {k: self.merge(c, a[k], b[k]) for k in a}
        if isinstance(a, (Cell, Ref)) or isinstance(b, (Cell, Ref)):
            if a is b:
                return a
            raise ExtractError('emit_smt: merging distinct pointers')
        if a is None: return b
        if b is None: return a
        return ite(c, a, b)

    # -- statements: return the path condition under which control continues ------------------
    def block(self, stmts, pc):
        for s in stmts:
            if pc == 'false':
                break
            pc = self.stmt(s, pc)
        return pc

    def snapshot(self):
        def cp(v):
            if isinstance(v, list): return [cp(x) for x in v]
            if isinstance(v, dict): return {k: cp(x) for k, x in v.items()}
            return v      # scalars (terms) and Cells (pointers, kept by identity)
        return {k: (c, cp(c.v)) for k, c in self.all_cells().items()}

    def all_cells(self):
        cells = {}

        def visit(name, c):
            if id(c) in cells: return
            cells[id(c)] = c
            walk(c.v)

        def walk(v):
            if isinstance(v, Cell): visit('', v)
            elif isinstance(v, list):
                for x in v: walk(x)
            elif isinstance(v, dict):
                for x in v.values(): walk(x)
        for k, c in self.env.items():
            visit(k, c)
        return cells

    def stmt(self, s, pc):
        k = s[0]
        if k == 'decl':
            name, t, init = s[1], s[2], s[3]
            if init is None:
                v = self.sx.default_value(t)
            elif init[0] == 'unspecified':
                self.B.unspec_counter = getattr(self.B, 'unspec_counter', 0) + 1
                v = self.sx.arbitrary_value(t, 'unspecified_%d' % self.B.unspec_counter)
            else:
                v = self.ev(init, pc)
                if isinstance(v, (list, dict)):
                    v = json.loads(json.dumps(v)) if not self.has_cell(v) else self.copyval(v)
            self.env[name] = Cell(v)
            return pc
        if k == 'assign':
            v = self.ev(s[2], pc)
            self.store(s[1], v, pc)
            return pc
        if k == 'expr':
            self.ev(s[1], pc)
            return pc
        if k == 'block':
            return self.block(s[1], pc)
        if k == 'if':
            c = self.ev(s[1], pc)
            before = self.snapshot()
            pt = self.block(s[2], land(pc, c))
            after_t = self.snapshot()
            # restore, run else
            for cid, (cell, val) in before.items():
                self.set_in_place(cell, val)
            pe = self.block(s[3], land(pc, lnot(c)))
            # merge cells (in place: aggregates are shared by reference with the caller)
            for cid, (cell, tval) in after_t.items():
                if cid in before:
                    self.set_in_place(cell, self.merge(c, tval, cell.v))
            # variables declared inside branches go out of scope
            return lor(pt, pe) if (pt != land(pc, c) or pe != land(pc, lnot(c))) else pc
        if k == 'return':
            v = self.ev(s[1], pc) if s[1] is not None else None
            if isinstance(v, (list, dict)):
                v = self.copyval(v)
            self.returns.append((pc, v))
            return 'false'
        if k == 'for':
            init, cond, inc, body = s[1], s[2], s[3], s[4]
            if not init and not inc and cond[0] == 'const' and cond[2]:
                return self.B.loop_handler(self, ('while', cond, body, s[5] if len(s) > 5 else 0), pc)     # for (;;) { ... break; }
            pc = self.block(init, pc)
            n = 0
            while True:
                c = self.ev(cond, pc)
                if c == 'false':
                    break
                if c != 'true':
                    if n == 0 and self.B.symbolic_loop is not None:
                        return self.B.symbolic_loop(self, s, pc)
                    raise ExtractError('emit_smt: loop with a symbolic bound in %s (condition %s)' % (self.fn.cname, c[:80]))
                pc = self.block(body, pc)
                pc = self.block(inc, pc)
                n += 1
                if n > 4096:
                    raise ExtractError('emit_smt: loop unrolling limit')
            self.B.note('loop with compile-time bound unrolled %d times in %s' % (n, self.fn.cname))
            return pc
        if k in ('while', 'dowhile'):
            return self.B.loop_handler(self, s, pc)
        if k in ('lock', 'ghost'):
            return pc
        raise ExtractError('emit_smt: statement kind %r' % (k,))

    def set_in_place(self, cell, val):
        def into(dst, src):
            if isinstance(dst, dict) and isinstance(src, dict):
                for k in src:
                    if isinstance(dst.get(k), (dict, list)) and isinstance(src[k], (dict, list)):
                        into(dst[k], src[k])
                    else:
                        dst[k] = src[k]
            elif isinstance(dst, list) and isinstance(src, list) and len(dst) == len(src):
                for i in range(len(src)):
                    if isinstance(dst[i], (dict, list)) and isinstance(src[i], (dict, list)):
                        into(dst[i], src[i])
                    else:
                        dst[i] = src[i]
            else:
                raise ExtractError('emit_smt: shape change of an aggregate across branches')
        if isinstance(cell.v, (dict, list)) and isinstance(val, (dict, list)):
            into(cell.v, val)
        else:
            cell.v = val

    def has_cell(self, v):
        if isinstance(v, Cell): return True
        if isinstance(v, list): return any(self.has_cell(x) for x in v)
        if isinstance(v, dict): return any(self.has_cell(x) for x in v.values())
        return False

    def copyval(self, v):
        if isinstance(v, list): return [self.copyval(x) for x in v]
        if isinstance(v, dict): return {k: self.copyval(x) for k, x in v.items()}
        return v

    # -- lvalues ------------------------------------------------------------------------------
    def loc(self, lv, pc):
        """returns (container, key) such that container[key] is the storage; container may be Cell ('v')"""
        k = lv[0]
        if k == 'var':
            if lv[1] not in self.env:
                raise ExtractError('emit_smt: unknown variable %s in %s' % (lv[1], self.fn.cname))
            return self.env[lv[1]], None
        if k == 'field':
            c, key = self.loc(lv[1], pc)
            base = c.v if key is None else c[key]
            if isinstance(base, Cell): base = base.v
            return base, lv[2]
        if k == 'arrow':
            p = self.ev(lv[1], pc)
            if not isinstance(p, Cell):
                raise ExtractError('emit_smt: arrow through a non-pointer')
            return p.v, lv[2]
        if k == 'elem':
            c, key = self.loc(lv[1], pc)
            base = c.v if key is None else c[key]
            if isinstance(base, Cell): base = base.v
            return base, lv[2]
        if k == 'deref':
            p = self.ev(lv[1], pc)
            if isinstance(p, Ref):
                return p.container, p.key
            if not isinstance(p, Cell):
                raise ExtractError('emit_smt: deref of a non-pointer')
            return p, None
        if k == 'vindex':
            # a container whose elements the spec supplies ({'size': n, 'data': [e0, e1, ...]}) with a concrete index: that element
            try:
                c0, key0 = self.loc(lv[1], pc)
                cont = c0.v if key0 is None else c0[key0]
                if isinstance(cont, Cell):
                    cont = cont.v
            except ExtractError:
                cont = None
            if isinstance(cont, dict) and isinstance(cont.get('data'), list):
                i = self.ev(lv[2], pc)
                if re.match(r'^\d+$', i) and int(i) < len(cont['data']):
                    return cont['data'], int(i)
                raise ExtractError('emit_smt: index %s into a container of %d modelled elements' % (i[:40], len(cont['data'])))
            self.B.note('element of a container is opaque in back end B')
            return Cell(None), None
        if k == 'elemx':
            c, key = self.loc(lv[1], pc)
            base = c.v if key is None else c[key]
            if isinstance(base, Cell): base = base.v
            i = self.ev(lv[2], pc)
            if not re.match(r'^\d+$', i):
                raise ExtractError('emit_smt: Eigen coefficient index is symbolic (%s)' % i[:60])
            return base, int(i)
        raise ExtractError('emit_smt: lvalue kind %r' % (k,))

    def symbolic_elem(self, lv, pc):
        """(base list, index term) for an Eigen coefficient access with a run-time index, else None"""
        if lv[0] != 'elemx':
            return None
        i = self.ev(lv[2], pc)
        if re.match(r'^\d+$', i):
            return None
        c, key = self.loc(lv[1], pc)
        base = c.v if key is None else c[key]
        if isinstance(base, Cell): base = base.v
        if not isinstance(base, list):
            raise ExtractError('emit_smt: run-time index into a non-array')
        self.B.oblige('index.in_bounds', land(app('<=', '0', i), app('<', i, str(len(base)))), pc)
        self.B.note('Eigen coefficient access with a run-time index: read = ite chain over the coefficients, write = conditional update of each')
        return base, i

    def load(self, lv, pc):
        se = self.symbolic_elem(lv, pc)
        if se is not None:
            base, i = se
            v = base[-1]
            for k in range(len(base) - 2, -1, -1):
                v = ite(app('=', i, str(k)), base[k], v)
            return v
        c, key = self.loc(lv, pc)
        v = c.v if key is None else c[key]
        if v is None:
            raise ExtractError('emit_smt: read of an uninitialised value (%s) in %s' % (lv[1] if lv[0] == 'var' else lv[0], self.fn.cname))
        return v

    def store(self, lv, v, pc):
        se = self.symbolic_elem(lv, pc)
        if se is not None:
            base, i = se
            for k in range(len(base)):
                base[k] = ite(app('=', i, str(k)), v, base[k])
            return
        c, key = self.loc(lv, pc)
        if isinstance(v, (list, dict)):
            v = self.copyval(v)
        if key is None:
            c.v = v
        else:
            c[key] = v

    # -- expressions ----------------------------------------------------------------------------
    def ev(self, e, pc):
        k = e[0]
        B = self.B
        if k == 'const':
            t, v = e[1], e[2]
            if t[0] == 'float':
                try:
                    fv = float(str(v).rstrip('fFlL'))
                except ValueError:
                    fv = None
                for lit, term in PI_LITERALS:
                    if fv is not None and abs(fv - lit) <= 4e-16 * lit:
                        B.decls['pi'] = 'Real'
                        B.note('floating literal %r read as the real constant %s (M_PI family)' % (v, term))
                        B.uses_pi = True
                        return term
                return num(v)
            if t[0] == 'bool': return 'true' if v else 'false'
            return inum(v)
        if k in ('var', 'field', 'arrow', 'elem', 'deref', 'elemx', 'vindex'):
            return self.load(e, pc)
        if k == 'addr':
            if e[1][0] == 'call':
                v = self.ev(e[1], pc)            # address of a temporary returned by a call (bound to a const reference parameter)
                return v if isinstance(v, Cell) else Cell(v)
            c, key = self.loc(e[1], pc)
            if key is None:
                return c
            v = c[key]
            if isinstance(v, Cell):
                return v
            # wrap sub-object in a cell that aliases the storage (lists/dicts are shared by reference)
            if isinstance(v, (list, dict)):
                return Cell(v)
            return Ref(c, key)
        if k == 'cast':
            a = self.ev(e[1], pc)
            ft, tt = e[2], e[3]
            if ft[0] == 'float' and tt[0] == 'float': return a
            if ft[0] in ('int', 'enum') and tt[0] == 'float': return app('to_real', a) if not re.match(r'^\d+$', a) else a + '.0'
            if ft[0] == 'float' and tt[0] == 'int':
                # C truncation toward zero; the obligation that the value is representable is left to back end A
                B.oblige('cast.nonneg_or_trunc', 'true', pc)
                return ite(app('>=', a, '0.0'), app('to_int', a), app('-', app('to_int', app('-', a))))
            if ft[0] in ('int', 'bool', 'enum') and tt[0] in ('int', 'enum'):
                if ft[0] == 'bool': return ite(a, '1', '0')
                return a     # integer conversions: ranges are back end A's business (mathematical integers here)
            if tt[0] == 'bool':
                return lnot(app('=', a, '0.0' if ft[0] == 'float' else '0'))
            raise ExtractError('emit_smt: cast %r -> %r' % (ft, tt))
        if k == 'un':
            a = self.ev(e[2], pc)
            if e[1] == '-': return neg(a)
            if e[1] == '!': return lnot(a)
            if e[1] == '+': return a
            raise ExtractError('emit_smt: unary ' + e[1])
        if k == 'bin':
            op = e[1]
            a = self.ev(e[2], pc)
            if op == '&&':
                b = self.ev(e[3], land(pc, a)); return land(a, b)
            if op == '||':
                b = self.ev(e[3], land(pc, lnot(a))); return lor(a, b)
            b = self.ev(e[3], pc)
            if a == 'NaN' or b == 'NaN':
                if op in ('==', '<', '>', '<=', '>='): return 'false'
                if op == '!=': return 'true'
                return 'NaN'
            t = e[4]
            ta = e[2][-1] if isinstance(e[2][-1], tuple) else t
            tb = e[3][-1] if isinstance(e[3][-1], tuple) else t
            isf = t[0] == 'float' or ta[0] == 'float' or tb[0] == 'float'
            if isf:
                if ta[0] != 'float' and not re.search(r'\.', a) and a.lstrip('(- ').rstrip(')').isdigit(): a = a + '.0' if a.isdigit() else app('to_real', a)
                elif ta[0] in ('int', 'enum') : a = app('to_real', a)
                if tb[0] in ('int', 'enum'): b = app('to_real', b) if not b.isdigit() else b + '.0'
            if op == '+': return add(a, b)
            if op == '-': return sub(a, b)
            if op == '*': return mul(a, b)
            if op == '/':
                if isf:
                    B.oblige('div.nonzero', lnot(app('=', b, '0.0')), pc)
                    if is_lit(b, 1): return a
                    return app('/', a, b)
                B.oblige('div.nonzero', lnot(app('=', b, '0')), pc)
                # C integer division truncates toward zero
                q = app('div', a, b)
                return ite(land(app('<', a, '0'), lnot(app('=', app('mod', a, b), '0'))), ite(app('>', b, '0'), add(q, '1'), sub(q, '1')), q)
            if op == '%':
                B.oblige('mod.nonzero', lnot(app('=', b, '0')), pc)
                return ite(app('>=', a, '0'), app('mod', a, b), neg(app('mod', neg(a), b)))
            if op in ('<', '>', '<=', '>=') and re.match(r'^\d+$', a) and re.match(r'^\d+$', b):
                return 'true' if eval('%s %s %s' % (a, op, b)) else 'false'
            if op in ('<', '>', '<=', '>='):
                return app(op, a, b)
            if op == '==': return app('=', a, b)
            if op == '!=': return lnot(app('=', a, b))
            raise ExtractError('emit_smt: binary ' + op)
        if k == 'cond':
            c = self.ev(e[1], pc)
            a = self.ev(e[2], land(pc, c))
            b = self.ev(e[3], land(pc, lnot(c)))
            return self.merge(c, a, b)
        if k == 'call':
            name, args = e[1], e[2]
            if name in LIBM1 or name in LIBM2 or name in ('fabs', 'abs', 'floor', 'ceil', 'copysign', 'trunc', 'isnan', 'isfinite', 'hypot'):
                av = [self.ev(a, pc) for a in args]
                return B.libm(name, av, pc, e[3])
            if re.match(r'^eigh[23]_', name):
                av = [self.ev(a, pc) for a in args]
                fn = 'f_' + name
                B.funs[fn] = (['Real'] * len(av), 'Real')
                B.note('Eigen::SelfAdjointEigenSolver of a 2x2 / 3x3 matrix: eigenvalues and eigenvectors are uninterpreted functions of its coefficients; the spec states the assumed contract')
                return app(fn, *av)
            if re.match(r'^svd[23]_', name):
                av = [self.ev(a, pc) for a in args]
                fn = 'f_' + name
                B.funs[fn] = (['Real'] * len(av), 'Real')
                B.note('Eigen::JacobiSVD of a 2x2 matrix: results are uninterpreted functions of its coefficients; the spec states the assumed contract')
                return app(fn, *av)
            if name.startswith('affine_solve'):
                av = [self.ev(a, pc) for a in args]
                return B.affine_solve(int(name[len('affine_solve'):]), av)
            if name in emit_limits():
                return emit_limits()[name]
            if name == 'quiet_nan':
                B.note('quiet_NaN kept as the marker NaN: comparisons with it are decided by the IEEE rule, any other use leaves the marker in the term (and the query undecided)')
                return 'NaN'
            av = [self.ev(a, pc) for a in args]
            return self.sx.call(name, av, pc)
        raise ExtractError('emit_smt: expression kind %r' % (k,))


def emit_limits():
    return {'numeric_limits_f64_max': num('1.7976931348623157e308'), 'numeric_limits_f32_max': num('3.40282347e38'),
            'numeric_limits_f64_lowest': neg(num('1.7976931348623157e308')), 'numeric_limits_f32_lowest': neg(num('3.40282347e38')),
            'numeric_limits_f64_min': num('2.2250738585072014e-308'), 'numeric_limits_f64_epsilon': num('2.220446049250313e-16')}


# ----------------------------------------------------------------------------------------
# builder API used by specs/<id>/b_spec.py
# ----------------------------------------------------------------------------------------
class Builder:
    def __init__(self, pid, work, tier):
        self.pid, self.work, self.tier = pid, work, tier
        self.prog = front.Program()
        self.decls = {}          # name -> sort
        self.funs = {}           # name -> (arg sorts, ret sort)
        self.obligations = []    # (kind, condition, path condition)  collected since the last reset
        self.vcs = []            # dict(name, assumptions, goal, bounded, timeout)
        self.notes = []
        self.axioms_used = set()
        self.sx = SymExec(self)
        self.loop_handler = self.default_loop
        self.loop_records = []
        self.facts = []
        self.overrides = {}     # cname -> python function(args) standing for a callee's contract
        self.side_conditions = []
        self.solves = {}
        self.symbolic_loop = None     # handler for `for` loops whose bound is not a compile-time constant
        self.libm_terms = {}     # (fname, args tuple) -> True
        self.functions_called = set()
        self.nfresh = 0

    # -- extraction -----------------------------------------------------------------------------
    def unit(self, path):
        full = os.path.join(front.REPO, path) if os.path.exists(os.path.join(front.REPO, path)) else os.path.join(VERIF, path)
        self.prog.add_unit(full, self.work)

    def function(self, cname, parent, name, **kw):
        self.prog.register(cname, parent, name, **kw)

    def extract(self):
        self.prog.extract_all()
        for t in list(self.prog.records):
            pass

    # -- symbols --------------------------------------------------------------------------------
    def const(self, name, sort='Real'):
        name = re.sub(r'[^A-Za-z0-9_]', '_', name)
        if name in self.decls and self.decls[name] != sort:
            raise ExtractError('emit_smt: symbol %s redeclared' % name)
        self.decls[name] = sort
        return name

    def real(self, name): return self.const(name, 'Real')

    def int(self, name): return self.const(name, 'Int')

    def fresh(self, prefix, sort='Real'):
        self.nfresh += 1
        return self.const('%s__%d' % (prefix, self.nfresh), sort)

    def vec(self, name, n): return [self.real('%s_%d' % (name, k)) for k in range(n)]

    def note(self, s):
        if s not in self.notes:
            self.notes.append(s)

    # -- libm -----------------------------------------------------------------------------------
    def libm(self, name, av, pc, rtype=None):
        if name in ('fabs', 'abs'):
            z = '0.0' if (rtype is None or rtype[0] == 'float') else '0'
            return ite(app('>=', av[0], z), av[0], neg(av[0]))
        if name == 'floor':
            return app('to_real', app('to_int', av[0]))
        if name == 'ceil':
            return neg(app('to_real', app('to_int', neg(av[0]))))
        if name == 'trunc':
            return ite(app('>=', av[0], '0.0'), app('to_real', app('to_int', av[0])), neg(app('to_real', app('to_int', neg(av[0])))))
        if name == 'hypot':
            name, av = 'sqrt', [add(mul(av[0], av[0]), mul(av[1], av[1]))]      # real semantics of hypot
        if name == 'copysign':
            m = ite(app('>=', av[0], '0.0'), av[0], neg(av[0]))
            return ite(app('>=', av[1], '0.0'), m, neg(m))
        if name == 'sqrt':
            self.oblige('sqrt.arg_nonneg', app('>=', av[0], '0.0'), pc)
        if name == 'log':
            self.oblige('log.arg_positive', app('>', av[0], '0.0'), pc)
        if name in ('asin', 'acos'):
            self.oblige(name + '.arg_in_unit_interval', land(app('<=', '(- 1.0)', av[0]), app('<=', av[0], '1.0')), pc)
        if name == 'pow':
            # integer literal exponents are expanded; otherwise x > 0 required
            m = re.match(r'^(\d+)(?:\.0)?$', av[1])
            if m and int(m.group(1)) <= 4:
                r = av[0]
                for _ in range(int(m.group(1)) - 1):
                    r = mul(r, av[0])
                return r if int(m.group(1)) > 0 else '1.0'
            self.oblige('pow.base_positive', app('>', av[0], '0.0'), pc)
        if name == 'fmod':
            self.oblige('fmod.divisor_nonzero', lnot(app('=', av[1], '0.0')), pc)
            q = app('/', av[0], av[1])
            tr = ite(app('>=', q, '0.0'), app('to_real', app('to_int', q)), neg(app('to_real', app('to_int', neg(q)))))
            return sub(av[0], mul(av[1], tr))
        fn = 'f_' + name
        self.funs[fn] = (['Real'] * len(av), 'Real')
        self.libm_terms[(fn, tuple(av))] = True
        return app(fn, *av)

    def affine_solve(self, k, av):
        """assumed contract of Eigen::Transform::inverse() * v for a transform whose linear part L is orthonormal:
        the inverse of an orthonormal matrix is its transpose (uniqueness of the inverse), so the result is L^T (v - t).
        The side condition L^T L = I is recorded in self.side_conditions and must be discharged by the spec."""
        L = [av[0:3], av[4:7], av[8:11]]
        t = [av[3], av[7], av[11]]
        v = av[12:15]
        key = tuple(av[:12])
        if key not in self.solves:
            self.solves[key] = True
            for i in range(3):
                for j in range(i, 3):
                    dot = add(add(mul(L[0][i], L[0][j]), mul(L[1][i], L[1][j])), mul(L[2][i], L[2][j]))
                    self.side_conditions.append(app('=', dot, '1.0' if i == j else '0.0'))
            self.note('Eigen::Affine3d::inverse() * v replaced by its assumed contract for an orthonormal linear part: L^T (v - t)')
        return add(add(mul(L[0][k], sub(v[0], t[0])), mul(L[1][k], sub(v[1], t[1]))), mul(L[2][k], sub(v[2], t[2])))

    def oblige(self, kind, cond, pc):
        if cond == 'true':
            return
        self.obligations.append((kind, cond, pc))

    def take_obligations(self):
        o, self.obligations = self.obligations, []
        return o

    # -- calls ----------------------------------------------------------------------------------
    def call(self, cname, *args):
        self.functions_called.add(cname)
        return self.sx.call(cname, [a if not isinstance(a, (list, dict)) else Cell(a) for a in args])

    @staticmethod
    def congruence(fn, args1, args2):
        """instance of function congruence (valid in first-order logic with equality): equal arguments, equal results"""
        return implies(land(*[app('=', x, y) for x, y in zip(args1, args2)]), app('=', app(fn, *args1), app(fn, *args2)))

    def make(self, tname, **fields):
        """a struct value with the given field terms (fields of base classes are found through the 'base' chain)"""
        v = self.sx.default_value(('struct', tname))
        for k, t in fields.items():
            d = v
            while k not in d:
                if 'base' not in d:
                    raise ExtractError('emit_smt: no field %s in %s' % (k, tname))
                d = d['base']
            d[k] = t
        return v

    @staticmethod
    def get(v, k):
        d = v
        while k not in d:
            d = d['base']
        return d[k]

    def struct(self, tname, name):
        return self.sx.fresh_value(('struct', tname), name)

    def fixed_point_loop(self, frame, s, pc):
        """partial-correctness summary of `while (cond) body` for fixed-point iterations:
        the variables assigned in the body are havocked to fresh symbols (an arbitrary iterate), the body is executed once,
        and the state after it is the loop's exit state.  The record (pre-iterate symbols, post terms, loop condition after
        the body) is appended to self.loop_records; the spec decides which idealised exit fact to assume (e.g. iterate = predecessor)."""
        assigned = set()

        def scan(stmts):
            for st in stmts:
                if st[0] == 'assign' and st[1][0] == 'var':
                    assigned.add(st[1][1])
                elif st[0] in ('if',):
                    scan(st[2]); scan(st[3])
                elif st[0] == 'block':
                    scan(st[1])
                elif st[0] in ('for', 'while', 'dowhile'):
                    scan(st[4] if st[0] == 'for' else st[2])
        scan(s[2])
        pre = {}
        for v in sorted(assigned):
            if v in frame.env and isinstance(frame.env[v].v, str):
                sym = self.fresh('it_' + v)
                pre[v] = sym
                frame.env[v].v = sym
        body = list(s[2])
        if len(body) == 1 and body[0][0] == 'block':
            body = list(body[0][1])
        exit_if = None
        if body and body[-1][0] == 'if' and body[-1][2] in ([('break',)], [('block', [('break',)])]) and not body[-1][3]:
            exit_if = body.pop()          # for (;;) { ...; if (converged) break; }
        frame.block(body, pc)
        post = {v: frame.env[v].v for v in pre}
        cond = frame.ev(s[1], pc)
        rec = {'function': frame.fn.cname, 'pre': pre, 'post': post, 'cond_after_body': cond}
        if exit_if is not None:
            rec['exit_test_after_body'] = frame.ev(exit_if[1], pc)
        else:
            # while (c) body / do body while (c): the loop is left after a body execution when c no longer holds
            rec['exit_test_after_body'] = lnot(cond)
        rec['locals'] = {k: c.v for k, c in frame.env.items() if isinstance(c.v, str)}
        self.loop_records.append(rec)
        self.note('while loop in %s summarised as a fixed-point iteration (partial correctness; termination and tolerance not decided)' % frame.fn.cname)
        return pc

    def default_loop(self, frame, s, pc):
        raise ExtractError('emit_smt: while loop in %s needs a loop handler (fixed-point summary)' % frame.fn.cname)

    # -- VCs ------------------------------------------------------------------------------------
    def vc(self, name, goal, assume=(), bounded=None, timeout=None, functions=(), subst=(), refute_only=False):
        """subst: [(term, symbol)] -- generalisation step: every occurrence of `term` in goal and assumptions is replaced by the
        fresh symbol (sound: the VC with the symbol universally quantified implies the VC with the term); facts about the term
        that the proof needs are passed as assumptions and are themselves proved by separate lemma VCs (without subst)."""
        for term, sym in sorted(subst, key=lambda p: -len(p[0])):
            goal = goal.replace(term, sym)
            assume = [a.replace(term, sym) for a in assume]
        self.vcs.append({'name': name, 'goal': goal, 'assume': list(assume), 'bounded': bounded, 'timeout': timeout, 'subst': list(subst), 'refute_only': refute_only,
                         'functions': sorted(set(functions) | set(self.functions_called))})

    def domain_vcs(self, prefix, assume=(), skip=()):
        """one VC per collected domain obligation (division by zero, sqrt/log/asin domain)"""
        seen = set()
        k = 0
        for kind, cond, pc in self.take_obligations():
            if kind in skip:
                continue
            key = (kind, cond, pc)
            if key in seen:
                continue
            seen.add(key)
            k += 1
            self.vc('%s.domain.%s.%d' % (prefix, kind, k), implies(pc, cond), assume)

    # -- axioms (ground instances) -----------------------------------------------------------------
    def auto_axioms(self, text, subst=()):
        """ground instances, for every libm term occurring in `text`, of the schemas that need no side condition"""
        out = []
        import axioms_libm
        order = sorted(subst, key=lambda p: -len(p[0]))

        def sub_all(t):
            for term, sym in order:
                t = t.replace(term, sym)
            return t
        for (fn, args) in list(self.libm_terms):
            args2 = tuple(sub_all(a) for a in args)
            t = app(fn, *args2)
            if t not in text:
                continue
            out += [sub_all(x) for x in axioms_libm.auto(fn, args2, self)]
        return out

    def axiom(self, schema, *args):
        import axioms_libm
        self.axioms_used.add(schema)
        return axioms_libm.instance(schema, args, self)

    # -- emission ----------------------------------------------------------------------------------
    def smt_text(self, vc):
        body = [vc['goal']] + vc['assume']
        # iterate axioms to a fixpoint (axiom instances may mention further libm terms)
        ax = []
        for _ in range(3):
            txt = ' '.join(body + ax)
            new = [a for a in self.auto_axioms(txt, vc.get('subst', ())) if a not in ax]
            if not new:
                break
            ax += new
        txt = ' '.join(body + ax)
        lines = ['(set-logic ALL)', '(set-option :produce-models true)']
        if re.search(r'(?<![A-Za-z0-9_])pi(?![A-Za-z0-9_])', txt):
            ax = ['(and (< 3.14159265358979 pi) (< pi 3.14159265358980))'] + [a for a in ax if a != '(and (< 3.14159265358979 pi) (< pi 3.14159265358980))']
            self.decls['pi'] = 'Real'
        for n, s in sorted(self.decls.items()):
            if re.search(r'(?<![A-Za-z0-9_])%s(?![A-Za-z0-9_])' % re.escape(n), txt):
                lines.append('(declare-const %s %s)' % (n, s))
        for fn, (asorts, rs) in sorted(self.funs.items()):
            if '(' + fn + ' ' in txt:
                lines.append('(declare-fun %s (%s) %s)' % (fn, ' '.join(asorts), rs))
        for a in ax:
            lines.append('(assert %s) ; libm axiom instance' % a)
        for a in vc['assume']:
            lines.append('(assert %s)' % a)
        lines.append('(assert (not %s))' % vc['goal'])
        lines.append('(check-sat)')
        lines.append('(get-model)')
        return '\n'.join(lines) + '\n'


def run_solver(cmd, path, timeout):
    t0 = time.time()
    try:
        r = subprocess.run(['bash', '-c', 'ulimit -v 8000000; exec "$@"', 'sh'] + cmd + [path], stdout=subprocess.PIPE, stderr=subprocess.STDOUT, text=True, timeout=timeout)
        out = r.stdout
    except subprocess.TimeoutExpired:
        return 'timeout', '', time.time() - t0
    return classify_out(out), out, time.time() - t0


def classify_out(out):
    first = out.strip().split('\n')[0].strip() if out.strip() else ''
    return first if first in ('sat', 'unsat', 'unknown') else 'error'


def run_portfolio(path, timeout, grace=4.0):
    """all solvers in parallel; once one gives a definite answer the others get `grace` more seconds (to detect disagreement)"""
    procs = {}
    t0 = time.time()
    for nm, cmd in SOLVERS:
        procs[nm] = subprocess.Popen(['bash', '-c', 'ulimit -v 8000000; exec "$@"', 'sh'] + cmd + [path], stdout=subprocess.PIPE, stderr=subprocess.STDOUT, text=True)
    results = {}
    deadline = t0 + timeout
    while procs and time.time() < deadline:
        for nm in list(procs):
            p = procs[nm]
            if p.poll() is not None:
                out = p.stdout.read()
                results[nm] = (classify_out(out), out, time.time() - t0)
                del procs[nm]
                if results[nm][0] in ('sat', 'unsat'):
                    deadline = min(deadline, time.time() + grace)
        time.sleep(0.02)
    for nm, p in procs.items():
        p.kill()
        try:
            p.wait(timeout=5)
        except Exception:
            pass
        results[nm] = ('timeout', '', time.time() - t0)
    return results


def parse_model(out):
    """values of the nullary Real/Int/Bool symbols of a solver model (s-expression scan)"""
    vals = {}
    toks = re.findall(r'\(|\)|[^\s()]+', out)
    i = 0

    def sexp(j):
        if toks[j] == '(':
            lst = []
            j += 1
            while toks[j] != ')':
                e, j = sexp(j)
                lst.append(e)
            return lst, j + 1
        return toks[j], j + 1

    def render(e):
        if isinstance(e, list):
            if len(e) == 2 and e[0] == '-':
                return '-' + render(e[1])
            if len(e) == 3 and e[0] == '/':
                return render(e[1]) + '/' + render(e[2])
            return '(' + ' '.join(render(x) for x in e) + ')'
        return e
    try:
        while i < len(toks):
            if toks[i] == '(':
                e, i = sexp(i)
                stack = [e]
                while stack:
                    x = stack.pop()
                    if isinstance(x, list):
                        if len(x) == 5 and x[0] == 'define-fun' and x[2] == [] and x[3] in ('Real', 'Int', 'Bool'):
                            vals[x[1]] = render(x[4])
                        else:
                            stack.extend(y for y in x if isinstance(y, list))
            else:
                i += 1
    except IndexError:
        pass
    return vals


def decide(vc, text, work, tier):
    """portfolio: unsat from any solver discharges; sat gives a model; otherwise undecided"""
    path = os.path.join(work, 'vc_%s.smt2' % hashlib.sha1(vc['name'].encode()).hexdigest()[:12])
    open(path, 'w').write(text)
    timeout = vc.get('timeout') or (60 if tier == 'quick' else 300)
    t0 = time.time()
    results = run_portfolio(path, timeout)
    sts = {nm: r[0] for nm, r in results.items()}
    if 'unsat' in sts.values():
        # vacuity guard: the assumptions and axiom instances alone must not be refutable
        vtext = text.replace('(assert (not %s))' % vc['goal'], '; goal removed: consistency check of the assumptions')
        vpath = path.replace('.smt2', '.vacuity.smt2')
        open(vpath, 'w').write(vtext)
        vres = run_portfolio(vpath, 10 if tier == 'quick' else 30, grace=1.0)
        if any(r[0] == 'unsat' for r in vres.values()):
            return {'name': vc['name'], 'goal': vc['goal'][:800], 'bounded': vc.get('bounded'), 'functions': vc.get('functions', []), 'status': 'vacuous',
                    'solver_results': {nm: '%s (%.2fs)' % (r[0], r[2]) for nm, r in vres.items()}, 'seconds': time.time() - t0, 'smt_file': vpath}
    res = {'name': vc['name'], 'goal': vc['goal'][:800], 'bounded': vc.get('bounded'), 'functions': vc.get('functions', []), 'refute_only': vc.get('refute_only', False),
           'solver_results': {nm: '%s (%.2fs)' % (r[0], r[2]) for nm, r in results.items()}, 'seconds': time.time() - t0, 'smt_file': path}
    if 'unsat' in sts.values() and 'sat' in sts.values():
        res['status'] = 'disagreement'
    elif 'unsat' in sts.values():
        res['status'] = 'unsat'
        res['solver'] = [nm for nm, s in sts.items() if s == 'unsat'][0]
        res['seconds'] = min(r[2] for r in results.values() if r[0] == 'unsat')
    elif 'sat' in sts.values():
        nm = [n for n, s in sts.items() if s == 'sat'][0]
        res['status'] = 'sat'
        res['solver'] = nm
        res['model'] = parse_model(results[nm][1])
        res['raw'] = results[nm][1][:3000]
    else:
        res['status'] = 'undecided'
    return res


def run_property(pid, tier, work, ncpu):
    spec_path = os.path.join(VERIF, 'specs', pid, 'b_spec.py')
    if not os.path.exists(spec_path):
        return [], []
    sys.path.insert(0, os.path.join(VERIF, 'axioms'))
    no_verdict = []
    B = Builder(pid, work, tier)
    spec = importlib.util.spec_from_file_location('b_spec_' + pid, spec_path)
    mod = importlib.util.module_from_spec(spec)
    try:
        spec.loader.exec_module(mod)
        mod.vcs(B)
    except ExtractError as ex:
        return [], ['back end B: extraction / VC generation failed: %s' % ex]
    texts = []
    for vc in B.vcs:
        if vc.get('bounded') and tier == 'quick' and vc.get('thorough_only'):
            continue
        texts.append((vc, B.smt_text(vc)))
    results = []
    with cf.ThreadPoolExecutor(max_workers=max(1, ncpu // 3)) as ex:
        for res in ex.map(lambda p: decide(p[0], p[1], work, tier), texts):
            res['spec'] = 'b_spec'
            res['backend'] = 'B'
            results.append(res)
            print('[%s] B %s: %s %s' % (pid, res['name'], res['status'], res['solver_results']), file=sys.stderr, flush=True)
            if res['status'] == 'disagreement':
                no_verdict.append('solver disagreement on %s: %s' % (res['name'], res['solver_results']))
            if res['status'] == 'vacuous':
                no_verdict.append('assumptions of %s are contradictory (vacuous VC): %s' % (res['name'], res['solver_results']))
    B_extraction = {
        'functions': [{'c_name': f.cname, 'qualified_name': f.qual, 'file': f.src_file, 'lines': [f.src_range[2], f.src_range[3]],
                       'sha256_of_source_text': f.sha256} for f in B.prog.functions.values()],
        'rules_fired': dict(sorted(B.prog.rules.items())), 'notes': B.notes, 'axiom_schemas_used': sorted(B.axioms_used),
    }
    for r in results:
        r['extraction'] = B_extraction
        r['functions'] = [B.prog.functions[c].qual for c in r.get('functions', []) if c in B.prog.functions]
    return results, no_verdict
