"""
axioms_libm.py -- the (small, fixed) set of axiom schemas about libm functions used by back end B.
Each schema is a true statement about the real functions sin, cos, tan, atan, atan2, asin, acos, sqrt, exp, log, pow;
VCs only ever see *ground instances* (no quantifiers reach the solvers).  `auto` schemas need no side condition and
are instantiated for every libm term occurring in a query; named schemas are instantiated explicitly by a b_spec.py.
Nothing may be added here to make an obligation pass that is not a textbook identity; the file is listed in the evidence.
"""
from emit_smt import app, land, lor, lnot, implies, mul, add, sub, neg

PI = 'pi'
PI_BOUNDS = '(and (< 3.14159265358979 pi) (< pi 3.14159265358980))'


def _f(B, name, n=1):
    B.funs['f_' + name] = (['Real'] * n, 'Real')
    return 'f_' + name


def _pi(B):
    B.decls['pi'] = 'Real'
    return PI


def auto(fn, args, B):
    out = []
    if fn in ('f_sin', 'f_cos'):
        t = args[0]
        s, c = app(_f(B, 'sin'), t), app(_f(B, 'cos'), t)
        out.append(app('=', add(mul(s, s), mul(c, c)), '1.0'))                 # sin^2 + cos^2 = 1
        out.append(land(app('<=', '(- 1.0)', s), app('<=', s, '1.0'), app('<=', '(- 1.0)', c), app('<=', c, '1.0')))
    elif fn == 'f_sqrt':
        x = args[0]
        r = app(_f(B, 'sqrt'), x)
        out.append(app('>=', r, '0.0'))
        out.append(implies(app('>=', x, '0.0'), app('=', mul(r, r), x)))        # sqrt(x)^2 = x
    elif fn == 'f_atan':
        _pi(B)
        r = app(_f(B, 'atan'), args[0])
        out.append(PI_BOUNDS)
        out.append(land(app('<', '(- (/ pi 2.0))', r), app('<', r, '(/ pi 2.0)')))  # range of atan
        # tan(atan x) = x, written without tan: sin(r) = x cos(r), cos(r) > 0
        s, c = app(_f(B, 'sin'), r), app(_f(B, 'cos'), r)
        out.append(land(app('=', s, mul(args[0], c)), app('>', c, '0.0')))
        B.libm_terms[('f_sin', (r,))] = True
    elif fn == 'f_asin':
        _pi(B)
        r = app(_f(B, 'asin'), args[0])
        out.append(PI_BOUNDS)
        out.append(land(app('<=', '(- (/ pi 2.0))', r), app('<=', r, '(/ pi 2.0)')))
        s, c = app(_f(B, 'sin'), r), app(_f(B, 'cos'), r)
        out.append(implies(land(app('<=', '(- 1.0)', args[0]), app('<=', args[0], '1.0')), land(app('=', s, args[0]), app('>=', c, '0.0'))))
        B.libm_terms[('f_sin', (r,))] = True
    elif fn == 'f_acos':
        _pi(B)
        r = app(_f(B, 'acos'), args[0])
        out.append(PI_BOUNDS)
        out.append(land(app('<=', '0.0', r), app('<=', r, 'pi')))
        s, c = app(_f(B, 'sin'), r), app(_f(B, 'cos'), r)
        out.append(implies(land(app('<=', '(- 1.0)', args[0]), app('<=', args[0], '1.0')), land(app('=', c, args[0]), app('>=', s, '0.0'))))
        B.libm_terms[('f_sin', (r,))] = True
    elif fn == 'f_atan2':
        _pi(B)
        y, x = args
        r = app(_f(B, 'atan2', 2), y, x)
        out.append(PI_BOUNDS)
        out.append(land(app('<', '(- pi)', r), app('<=', r, 'pi')))   # real atan2 ranges over (-pi, pi]
        # (x,y) != 0  =>  sin(r) * rho = y, cos(r) * rho = x with rho = sqrt(x^2+y^2) > 0
        rho = app(_f(B, 'sqrt'), add(mul(x, x), mul(y, y)))
        s, c = app(_f(B, 'sin'), r), app(_f(B, 'cos'), r)
        nz = lnot(land(app('=', x, '0.0'), app('=', y, '0.0')))
        out.append(implies(nz, land(app('=', mul(s, rho), y), app('=', mul(c, rho), x), app('>', rho, '0.0'))))
        B.libm_terms[('f_sin', (r,))] = True
        B.libm_terms[('f_sqrt', (add(mul(x, x), mul(y, y)),))] = True
    elif fn == 'f_exp':
        out.append(app('>', app(_f(B, 'exp'), args[0]), '0.0'))
    elif fn == 'f_log':
        x = args[0]
        out.append(implies(app('>', x, '0.0'), app('=', app(_f(B, 'exp'), app(_f(B, 'log'), x)), x)))   # exp(log x) = x
    elif fn == 'f_tan':
        t = args[0]
        s, c, tn = app(_f(B, 'sin'), t), app(_f(B, 'cos'), t), app(_f(B, 'tan'), t)
        out.append(implies(lnot(app('=', c, '0.0')), app('=', mul(tn, c), s)))   # tan = sin / cos
        B.libm_terms[('f_sin', (t,))] = True
    return out


def instance(schema, a, B):
    sin, cos = _f(B, 'sin'), _f(B, 'cos')
    S = lambda t: app(sin, t)
    C = lambda t: app(cos, t)
    for t in a:
        pass
    if schema == 'sin_add':      # sin(x+y)
        x, y = a
        return app('=', S(add(x, y)), add(mul(S(x), C(y)), mul(C(x), S(y))))
    if schema == 'cos_add':
        x, y = a
        return app('=', C(add(x, y)), sub(mul(C(x), C(y)), mul(S(x), S(y))))
    if schema == 'sin_sub':
        x, y = a
        return app('=', S(sub(x, y)), sub(mul(S(x), C(y)), mul(C(x), S(y))))
    if schema == 'cos_sub':
        x, y = a
        return app('=', C(sub(x, y)), add(mul(C(x), C(y)), mul(S(x), S(y))))
    if schema == 'sin_half':     # sin(x) = 2 sin(x/2) cos(x/2), cos(x) = cos^2 - sin^2 of x/2 ; a = (x, half term)
        x, h = a
        return implies(app('=', mul('2.0', h), x), land(app('=', S(x), mul('2.0', mul(S(h), C(h)))), app('=', C(x), sub(mul(C(h), C(h)), mul(S(h), S(h))))))
    if schema == 'trig_zero':
        return land(app('=', S('0.0'), '0.0'), app('=', C('0.0'), '1.0'))
    if schema == 'trig_half_pi':
        _pi(B)
        return land(PI_BOUNDS, app('=', S('(/ pi 2.0)'), '1.0'), app('=', C('(/ pi 2.0)'), '0.0'))
    if schema == 'sin_neg':
        x, = a
        return land(app('=', S(neg(x)), neg(S(x))), app('=', C(neg(x)), C(x)))
    if schema == 'sincos_injective':
        # x, y in (-pi, pi], sin x = sin y, cos x = cos y  =>  x = y
        _pi(B)
        x, y = a
        return implies(land(app('<', '(- pi)', x), app('<=', x, 'pi'), app('<', '(- pi)', y), app('<=', y, 'pi'), app('=', S(x), S(y)), app('=', C(x), C(y))), app('=', x, y))
    if schema == 'sin_injective_half':
        # x, y in [-pi/2, pi/2], sin x = sin y => x = y
        _pi(B)
        x, y = a
        return implies(land(app('<=', '(- (/ pi 2.0))', x), app('<=', x, '(/ pi 2.0)'), app('<=', '(- (/ pi 2.0))', y), app('<=', y, '(/ pi 2.0)'), app('=', S(x), S(y))), app('=', x, y))
    if schema == 'tan_injective':
        # x, y in (-pi/2, pi/2), sin x cos y = sin y cos x => x = y
        _pi(B)
        x, y = a
        return implies(land(app('<', '(- (/ pi 2.0))', x), app('<', x, '(/ pi 2.0)'), app('<', '(- (/ pi 2.0))', y), app('<', y, '(/ pi 2.0)'), app('=', mul(S(x), C(y)), mul(S(y), C(x)))), app('=', x, y))
    if schema == 'cos_positive_open_half':
        _pi(B)
        x, = a
        return implies(land(app('<', '(- (/ pi 2.0))', x), app('<', x, '(/ pi 2.0)')), app('>', C(x), '0.0'))
    if schema == 'away_from_half_pi':
        # |x| <= pi/2 - 1/1000  =>  |sin x| <= cos(1/1000) = 0.99999950000004... <= 0.9999996  and  cos x >= sin(1/1000) = 0.00099999983... >= 0.00099
        _pi(B)
        x, = a
        return implies(land(app('<=', '(- (- (/ pi 2.0) 0.001))', x), app('<=', x, '(- (/ pi 2.0) 0.001)')),
                       land(app('<=', '(- 0.9999996)', S(x)), app('<=', S(x), '0.9999996'), app('>=', C(x), '0.00099')))
    if schema == 'periodic_2pi':
        # sin/cos(x + 2 pi k) for integer k
        _pi(B)
        x, k = a
        t = add(x, mul(mul('2.0', 'pi'), app('to_real', k)))
        return land(app('=', S(t), S(x)), app('=', C(t), C(x)))
    if schema == 'exp_add':
        x, y = a
        e = _f(B, 'exp')
        return app('=', app(e, add(x, y)), mul(app(e, x), app(e, y)))
    if schema == 'exp_zero':
        return app('=', app(_f(B, 'exp'), '0.0'), '1.0')
    if schema == 'exp_neg':
        x, = a
        e = _f(B, 'exp')
        return app('=', mul(app(e, x), app(e, neg(x))), '1.0')
    if schema == 'log_exp':
        x, = a
        return app('=', app(_f(B, 'log'), app(_f(B, 'exp'), x)), x)
    if schema == 'exp_injective':
        x, y = a
        e = _f(B, 'exp')
        return implies(app('=', app(e, x), app(e, y)), app('=', x, y))
    if schema == 'pow_def':      # x > 0 => pow(x,y) = exp(y log x)
        x, y = a
        return implies(app('>', x, '0.0'), app('=', app(_f(B, 'pow', 2), x, y), app(_f(B, 'exp'), mul(y, app(_f(B, 'log'), x)))))
    if schema == 'log_mul':      # x,y > 0 => log(xy) = log x + log y
        x, y = a
        l = _f(B, 'log')
        return implies(land(app('>', x, '0.0'), app('>', y, '0.0')), app('=', app(l, mul(x, y)), add(app(l, x), app(l, y))))
    if schema == 'tan_def':
        x, = a
        return implies(lnot(app('=', C(x), '0.0')), app('=', mul(app(_f(B, 'tan'), x), C(x)), S(x)))
    raise KeyError('unknown axiom schema ' + schema)
